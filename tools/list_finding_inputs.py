#!/venv/bin/python
"""Maintenance aid, run by hand (never by a check): enumerate the exact inputs behind the open findings of a property.

usage: tools/list_finding_inputs.py <ID> [quick|thorough ...]

Runs the check of <ID> in the given tiers (default: quick and thorough) with VERIF_DUMP_VIOLATIONS set, keeps the
violations whose coarse signature is an open finding in KNOWN_FINDINGS.txt and writes findings/<ID>.inputs:
    signature <TAB> case key <TAB> the case as JSON
The file is committed; vf/core.py reads it (finding lines with inputs=findings/<ID>.inputs) so that a recorded finding
covers exactly the listed inputs and nothing else.
"""
import json
import os
import subprocess
import sys
from pathlib import Path

ROOT = Path(__file__).resolve().parent.parent
pid = sys.argv[1]
tiers = sys.argv[2:] or ["quick", "thorough"]
open_sigs = set()
for line in (ROOT / "KNOWN_FINDINGS.txt").read_text().splitlines():
    if line.startswith("finding:") and f"property={pid} " in line:
        for t in line.split():
            if t.startswith("sig="):
                open_sigs.add(t[4:])
rows = {}
for tier in tiers:
    dump = f"/dev/shm/verif_dump_{pid}_{tier}.jsonl"
    env = dict(os.environ, VERIF_DUMP_VIOLATIONS=dump)
    r = subprocess.run([str(ROOT / "check"), pid, "--tier", tier], env=env, capture_output=True, text=True)
    print(tier, "rc", r.returncode, r.stdout.splitlines()[0] if r.stdout else r.stderr[-300:])
    for l in open(dump):
        v = json.loads(l)
        if v["sig"] in open_sigs:
            rows[(v["sig"], v["key"])] = json.dumps(v["case"], sort_keys=True)
    os.remove(dump)
out = ROOT / "findings" / f"{pid}.inputs"
out.parent.mkdir(exist_ok=True)
with open(out, "w") as f:
    for (sig, key), case in sorted(rows.items()):
        f.write(f"{sig}\t{key}\t{case}\n")
print("wrote", out, len(rows), "inputs for", len({s for s, _ in rows}), "signatures")
