#!/bin/bash
# usage: tools/run_all.sh [tier] [seed...]   -- runs every registered check, prints one line per check
tier="${1:-quick}"; shift
seeds="${@:-0}"
cd /verif
for seed in $seeds; do
  for id in $(/venv/bin/python -c "import json;print(' '.join(c['property_id'] for c in json.load(open('MANIFEST.json'))['checks']))"); do
    t0=$(date +%s)
    out=$(VERIF_SEED=$seed ./check $id --tier $tier 2>&1); rc=$?
    t1=$(date +%s)
    echo "seed=$seed $id rc=$rc $((t1-t0))s $(echo "$out" | grep -c '^VIOLATION') violations, $(echo "$out" | grep -c '^KNOWN-FINDING') known | $(echo "$out" | grep -m1 '^\[' | cut -c1-150)"
    if [ $rc -ne 0 ]; then echo "$out" | grep -E "signature|HARNESS" | head -5 | cut -c1-300; fi
  done
done
