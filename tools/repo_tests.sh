#!/bin/bash
# Run the repository's own suite on a tree (default /repo) and compare with the pinned baseline.
# usage: tools/repo_tests.sh [tree]
tree="${1:-/repo}"
out="$(mktemp -d /dev/shm/repotests.XXXXXX)"
cd "$tree" || exit 2
env -u HANJINLIU_ACRYO_VERIF PYTHONPATH="$tree" PYTHONDONTWRITEBYTECODE=1 /venv/bin/python -m pytest -q -p no:cacheprovider --timeout=900 -n 16 --junitxml="$out/j.xml" >"$out/log" 2>&1
/venv/bin/python - "$out/j.xml" <<'PY'
import json,sys,xml.etree.ElementTree as ET
base=json.load(open('/root/.vp/BASELINE.json'))
want=set(base['stable_pass'])
got=set()
for tc in ET.parse(sys.argv[1]).getroot().iter('testcase'):
    ok=not any(c.tag in('failure','error','skipped') for c in tc)
    if ok: got.add(f"{tc.get('classname')}::{tc.get('name')}")
miss=sorted(want-got)
print(f"baseline stable_pass={len(want)} passing_now={len(got&want)} newly_passing={sorted(got-want)}")
if miss:
    print("MISSING:",*miss,sep="\n  "); sys.exit(1)
PY
rc=$?
[ $rc -ne 0 ] && tail -30 "$out/log"
rm -rf "$out"
exit $rc
