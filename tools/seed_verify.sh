#!/bin/bash
# usage: tools/seed_verify.sh <seed-name> <worktree-dir> <demo-file-name> <ID> [<ID>...]
# Copies patch + demo from a sub-agent's worktree into seeded/<seed-name>/, then confirms on a scratch copy of /repo:
#  demo passes without the patch, fails with it; repository suite passes with it; runs the listed checks against it.
name="$1"; wt="$2"; demo="$3"; shift 3
dst=/verif/seeded/$name; mkdir -p "$dst"
cp "$wt/patch.diff" "$dst/patch.diff"; cp "$wt/$demo" "$dst/$demo"
# sub-agents often assert that acryo is imported from their own worktree: the stored demo must run anywhere
sed -i -E 's|^([[:space:]]*)assert acryo.__file__.startswith\("/tmp/[^"]+"\), acryo.__file__|\1print("acryo imported from", acryo.__file__)|' "$dst/$demo"
scratch="$(mktemp -d /dev/shm/acryo-seed.XXXXXX)"; trap 'rm -rf "$scratch"' EXIT
rsync -a --exclude .git --exclude __pycache__ /repo/ "$scratch/repo/"
cp "$dst/$demo" "$scratch/repo/"
( cd "$scratch/repo" && PYTHONPATH="$scratch/repo" timeout 900 /venv/bin/python "$demo" > "$scratch/demo_clean.log" 2>&1 ); rc_clean=$?
if ! ( cd "$scratch/repo" && patch -p1 -s < "$dst/patch.diff" ); then echo "PATCH-FAILED"; exit 3; fi
( cd "$scratch/repo" && PYTHONPATH="$scratch/repo" timeout 900 /venv/bin/python "$demo" > "$scratch/demo_patched.log" 2>&1 ); rc_patched=$?
echo "demo: clean rc=$rc_clean patched rc=$rc_patched ($(tail -1 "$scratch/demo_patched.log" | cut -c1-160))"
rm -f "$scratch/repo/$demo"
/verif/tools/mutant.sh "$dst/patch.diff" --tests "$@" | tee "$scratch/checks.log"
{
 echo "{"
 echo "  \"demo_rc_clean\": $rc_clean, \"demo_rc_patched\": $rc_patched,"
 echo "  \"checks\": $(grep -E '^(CAUGHT|MISSED|HARNESS-ERROR|TESTS)' "$scratch/checks.log" | /venv/bin/python -c 'import sys,json; print(json.dumps([l.strip()[:300] for l in sys.stdin]))')"
 echo "}"
} > "$dst/verify_result.json"
