#!/bin/bash
# For every "fix:" commit in /repo: build the reverse patch (= the code as the maintainer wrote it), apply it to a scratch copy
# and run the quick check of the property it was recorded under in KNOWN_FINDINGS.txt. Every line must say CAUGHT.
cd /verif
out=mutants/REVERTED_FIXES.md
echo "# Reverted fixes as mutants (tools/revert_campaign.sh, $(date -u +%F))" > $out
echo "" >> $out
echo "Each 'fix:' commit of /repo is reversed on a scratch copy (the repository suite is known to pass with the original code) and the quick check of its property is run against the copy. Where a later fix rewrote the same lines the reverse patch no longer applies; the fix is then reversed together with those later fixes (newest first) in a scratch git worktree." >> $out
echo "" >> $out
echo "| commit | property | result | subject |" >> $out
echo "|---|---|---|---|" >> $out
grep '^fixed:' KNOWN_FINDINGS.txt | while read -r line; do
  prop=$(echo "$line" | sed -E 's/.*property=(C[0-9]+).*/\1/')
  sha=$(echo "$line" | awk '{print $3}')
  subj=$(git -C /repo log --format=%s -n1 $sha 2>/dev/null)
  [ -z "$subj" ] && { echo "| $sha | $prop | UNKNOWN-COMMIT | |" >> $out; continue; }
  git -C /repo diff $sha $sha~1 > /dev/shm/revert_$sha.diff
  res=$(tools/mutant.sh /dev/shm/revert_$sha.diff $prop 2>&1 | grep -E "^(CAUGHT|MISSED|HARNESS|PATCH)" | head -1 | cut -c1-160)
  case "$res" in PATCH-FAILED*)
    # the lines were rewritten by later fixes: reverse those too (newest first), in a scratch worktree, and test the combination
    wt=$(mktemp -d /dev/shm/acryo-rv.XXXXXX); git -C /repo worktree add -q --detach $wt HEAD
    files=$(git -C /repo show --format= --name-only $sha | grep '^acryo/')
    later=$(git -C /repo log --format=%h $sha..HEAD -- $files | tr '\n' ' ')
    ok=1; for c in $later $sha; do (cd $wt && git revert --no-commit $c >/dev/null 2>&1) || { ok=0; break; }; done
    if [ $ok = 1 ]; then
      (cd $wt && git diff --cached -- acryo) > /dev/shm/revert_$sha.diff
      res="$(tools/mutant.sh /dev/shm/revert_$sha.diff $prop 2>&1 | grep -E "^(CAUGHT|MISSED|HARNESS|PATCH)" | head -1 | cut -c1-120) [reversed together with the later fixes on the same lines: $later]"
    else
      res="PATCH-STALE (rewritten by later fixes: $later)"
    fi
    git -C /repo worktree remove --force $wt; git -C /repo worktree prune;;
  esac
  echo "| $sha | $prop | ${res//|/\\|} | $subj |" >> $out
  echo "$sha $prop ${res:0:60}"
  rm -f /dev/shm/revert_$sha.diff
done
