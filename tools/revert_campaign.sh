#!/bin/bash
# For every "fix:" commit in /repo: build the reverse patch (= the code as the maintainer wrote it), apply it to a scratch copy
# and run the quick check of the property it was recorded under in KNOWN_FINDINGS.txt. Every line must say CAUGHT.
cd /verif
out=mutants/REVERTED_FIXES.md
echo "# Reverted fixes as mutants (tools/revert_campaign.sh, $(date -u +%F))" > $out
echo "" >> $out
echo "Each 'fix:' commit of /repo is reversed on a scratch copy (the repository suite is known to pass with the original code) and the quick check of its property is run against the copy." >> $out
echo "" >> $out
echo "| commit | property | result | subject |" >> $out
echo "|---|---|---|---|" >> $out
grep '^fixed:' KNOWN_FINDINGS.txt | while read -r line; do
  prop=$(echo "$line" | sed -E 's/.*property=(C[0-9]+).*/\1/')
  sha=$(echo "$line" | awk '{print $3}')
  subj=$(git -C /repo log --format=%s -n1 $sha 2>/dev/null)
  [ -z "$subj" ] && { echo "| $sha | $prop | UNKNOWN-COMMIT | |" >> $out; continue; }
  git -C /repo diff $sha $sha~1 > /dev/shm/revert_$sha.diff
  res=$(tools/mutant.sh /dev/shm/revert_$sha.diff $prop 2>&1 | grep -E "^(CAUGHT|MISSED|HARNESS|PATCH)" | head -1 | cut -c1-160)
  echo "| $sha | $prop | ${res//|/\\|} | $subj |" >> $out
  echo "$sha $prop ${res:0:60}"
  rm -f /dev/shm/revert_$sha.diff
done
