#!/bin/bash
# usage: tools/mutant.sh <patch.diff> [--tests] <ID> [<ID> ...]
# Applies a patch to a scratch copy of /repo (never to /repo itself), runs the given checks against the
# copy through VERIF_REPO and prints one line per check: CAUGHT / MISSED / HARNESS-ERROR. Evidence and
# replays of the run go to a scratch /verif copy so the committed evidence is untouched.
patch="$(readlink -f "$1")"; shift
runtests=0
if [ "$1" = "--tests" ]; then runtests=1; shift; fi
scratch="$(mktemp -d /dev/shm/acryo-mut.XXXXXX)"
trap 'rm -rf "$scratch"' EXIT
rsync -a --exclude .git --exclude __pycache__ /repo/ "$scratch/repo/"
if ! (cd "$scratch/repo" && patch -p1 -s < "$patch"); then echo "PATCH-FAILED $patch"; exit 3; fi
rsync -a --exclude .git --exclude replays --exclude evidence --exclude seeded /verif/ "$scratch/verif/"
if [ $runtests = 1 ]; then
  if /verif/tools/repo_tests.sh "$scratch/repo" > "$scratch/tests.log" 2>&1; then echo "TESTS-PASS $(head -1 "$scratch/tests.log")"; else echo "TESTS-FAIL"; cat "$scratch/tests.log" | head -20; fi
fi
for id in "$@"; do
  out="$(cd "$scratch/verif" && VERIF_REPO="$scratch/repo" ./check "$id" 2>&1)"; rc=$?
  n=$(echo "$out" | grep -c '^VIOLATION')
  case $rc in
    1) echo "CAUGHT $id ($n signatures): $(echo "$out" | grep -m1 signature | cut -c1-260)";;
    0) echo "MISSED $id: $(echo "$out" | grep -m1 '^\[')";;
    *) echo "HARNESS-ERROR $id rc=$rc"; echo "$out" | tail -15;;
  esac
done
