#!/venv/bin/python
"""Regenerate MANIFEST.json from the property modules that exist (vf/props/cXX.py).

Every property without a module is listed under not_applicable with the reason
'not yet built' until its check lands; properties that are genuinely out of
reach of the technique carry their own reason in NOT_APPLICABLE below.
"""
import importlib
import json
import os
import sys
from pathlib import Path

ROOT = Path(__file__).resolve().parent.parent
sys.path.insert(0, str(ROOT))
os.environ.setdefault("VERIF_REPO", "/repo")

NOT_APPLICABLE = {}

props = [json.loads(l) for l in (ROOT / "properties.jsonl").read_text().splitlines() if l.strip()]
checks, na = [], []
for p in props:
    pid = p["id"]
    f = ROOT / "vf" / "props" / f"{pid.lower()}.py"
    if not f.exists() or pid in NOT_APPLICABLE:
        na.append({"property_id": pid, "reason": NOT_APPLICABLE.get(pid, "check not built yet (work in progress; see DESIGN.md section 3 for the planned exploration)")})
        continue
    from vf.core import bind_repo

    bind_repo()
    mod = importlib.import_module(f"vf.props.{pid.lower()}")
    checks.append(
        {
            "property_id": pid,
            "quick_cmd": f"./check {pid}",
            "thorough_cmd": f"./check {pid} --tier thorough",
            "evidence_file": f"/verif/evidence/{pid}.json",
            "replay_cmd_template": f"./check {pid} --replay {{path}}",
            "engine": getattr(mod, "ENGINE", "E1 bounded-exhaustive product enumeration"),
            "level_claimed": {
                "category": mod.LEVEL,
                "text": getattr(mod, "LEVEL_TEXT", mod.RULE),
                "design_ref": mod.DESIGN_REF,
            },
            "level_note": "; ".join(mod.ASSUMPTIONS),
            "technique": getattr(mod, "TECHNIQUE", "bounded exhaustive enumeration of the stated finite alphabet on the real implementation, compared case by case with a reference model written from the property statement"),
        }
    )

manifest = {
    "version": 1,
    "setup_cmd": "cd /verif && /venv/bin/python -m compileall -q vf >/dev/null && /venv/bin/python tools/gen_manifest.py --check",
    "hooks": {
        "guard": "HANJINLIU_ACRYO_VERIF",
        "enable": "no source hooks: checks import acryo from $VERIF_REPO (default /repo) in a fresh interpreter; the guard variable is exported by ./check but nothing in the repository reads it",
        "baseline_off_cmd": "cd /repo && env -u HANJINLIU_ACRYO_VERIF /venv/bin/python -m pytest -ra -q -p no:cacheprovider --timeout=900 --continue-on-collection-errors",
        "source_commits": [],
        "add_only": True,
    },
    "engines": [
        {"name": "E1", "path": "vf/core.py", "serves_properties": [c["property_id"] for c in checks], "kind_free_text": "bounded-exhaustive product enumeration sharded over worker processes"},
    ],
    "checks": checks,
    "not_applicable": na,
    "notes": "All checks run the real implementation from /repo's working tree; KNOWN_FINDINGS.txt lists open findings and fixed defects; see DESIGN.md.",
}
path = ROOT / "MANIFEST.json"
if "--check" in sys.argv:
    cur = json.loads(path.read_text())
    ids = {c["property_id"] for c in cur["checks"]} | {c["property_id"] for c in cur.get("not_applicable", [])}
    assert ids == {p["id"] for p in props}, "MANIFEST does not cover every property"
    print("manifest ok:", len(cur["checks"]), "checks")
else:
    extra = ROOT / "tools" / "manifest_extra.json"
    if extra.exists():
        ex = json.loads(extra.read_text())
        manifest["engines"] = ex.get("engines", manifest["engines"])
    path.write_text(json.dumps(manifest, indent=1) + "\n")
    print("wrote", path, len(checks), "checks,", len(na), "not yet claimed")
