#!/bin/bash
# Re-run, for every seeded change, the checks recorded as detecting it against the CURRENT /repo + patch (scratch copy).
# Patches that no longer apply to the current tree (the code they touch was repaired since) are reported as PATCH-STALE.
# Writes mutants/SEEDED_CAMPAIGN.md.  usage: tools/seed_campaign.sh [name-filter]
# With a filter only the rows of the matching seeds are replaced (or added) in the existing file.
cd /verif
out=mutants/SEEDED_CAMPAIGN.md
[ -n "$1" ] && [ -f $out ] || {
 echo "# Seeded changes against the current checks (tools/seed_campaign.sh, $(date -u +%F), /repo $(git -C /repo log --format=%h -n1))"
 echo ""
 echo "| seed | property | checks run | result |"
 echo "|---|---|---|---|"
} > $out
for d in seeded/*${1}*/; do
  name=$(basename $d)
  [ -f $d/meta.json ] || continue
  ids=$(/venv/bin/python -c "import json,sys; m=json.load(open('$d/meta.json')); print(' '.join(dict.fromkeys(m.get('detected_by_after_strengthening', []) + m.get('detected_by', []))))")
  prop=$(/venv/bin/python -c "import json; print(json.load(open('$d/meta.json'))['property'])")
  res=$(tools/mutant.sh $d/patch.diff $ids 2>&1 | grep -E "^(CAUGHT|MISSED|HARNESS|PATCH)" | cut -c1-60 | tr '\n' ';')
  case "$res" in *PATCH-FAILED*) res="PATCH-STALE (does not apply to the current tree)";; esac
  [ -n "$1" ] && sed -i "/^| $name | /d" $out
  echo "| $name | $prop | $ids | ${res//|/\\|} |" >> $out
  echo "$name: $res"
done
