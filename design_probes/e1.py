import numpy as np, warnings, time
from scipy.spatial.transform import Rotation as R
from acryo import Molecules, SubtomogramLoader, MockLoader
from acryo.alignment import ZNCCAlignment, PCCAlignment, NCCAlignment, FSCAlignment

# --- C08 legacy tilt_range kw
t = np.random.default_rng(0).normal(size=(8,8,8)).astype(np.float32)
with warnings.catch_warnings():
    warnings.simplefilter("ignore")
    m1 = ZNCCAlignment(t, tilt_range=(-60,60))
m2 = ZNCCAlignment(t, tilt=(-60,60))
q = np.array([0,0,0,1.])
print("legacy==tuple:", np.array_equal(m1.get_missing_wedge_mask(q), m2.get_missing_wedge_mask(q)), type(m1._tilt_model).__name__)

# --- C08 odd symmetric
from acryo.tilt import single_axis
for shape in [(4,4,4),(5,5,5),(5,4,6),(7,7,7)]:
    mk = single_axis((-50,50)).create_mask(R.identity(), shape)
    # k -> -k
    idx = np.indices(shape)
    neg = tuple((-idx[i]) % shape[i] for i in range(3))
    print(shape, "sym:", np.array_equal(mk, mk[neg]), "dc kept:", bool(mk[0,0,0]))
