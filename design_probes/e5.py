import numpy as np, warnings, time, itertools
import dask
dask.config.set(scheduler="synchronous")
from acryo.alignment import ZNCCAlignment, PCCAlignment, NCCAlignment, FSCAlignment
warnings.simplefilter("ignore")

def blobs(shape, d=(0,0,0), seed=0):
    r = np.random.default_rng(seed)
    zz,yy,xx = np.indices(shape).astype(np.float64)
    c = (np.array(shape)-1)/2
    img = np.zeros(shape)
    for i in range(4):
        off = r.uniform(-1.5,1.5,3); s = r.uniform(1.0,1.4); a = r.uniform(0.5,1)
        cz,cy,cx = c+off+np.array(d)
        img += a*np.exp(-((zz-cz)**2+(yy-cy)**2+(xx-cx)**2)/(2*s*s))
    return img.astype(np.float32)

for shape in [(12,12,12),(11,11,11),(10,12,14),(9,12,11)]:
    for M in [ZNCCAlignment, NCCAlignment, PCCAlignment, FSCAlignment]:
        t = blobs(shape)
        model = M(t)
        worst=0; worst_d=None; ts=0; n=0; exc=0
        ms=(2,2,2)
        for d in itertools.product([-2,-1.3,-0.5,0,0.25,1,1.7,2], repeat=3):
            if n>=80 and M is FSCAlignment: break
            img = blobs(shape, d)*3+0.5
            t0=time.time()
            try:
                r = model.align(img, ms)
            except Exception as e:
                exc+=1; continue
            ts+=time.time()-t0; n+=1
            err = np.max(np.abs(r.shift-np.array(d)))
            if err>worst: worst, worst_d = err, (d, r.shift.tolist(), r.score)
        print(shape, M.__name__, f"worst err {worst:.3f} at {worst_d}  avg {ts/max(n,1)*1000:.1f} ms n={n} exc={exc}")
