import numpy as np, warnings, time, itertools
import dask, dask.array as da
dask.config.set(scheduler="synchronous")
from scipy.spatial.transform import Rotation as R
from acryo import Molecules, SubtomogramLoader, BatchLoader
from acryo.alignment import ZNCCAlignment, PCCAlignment, NCCAlignment, FSCAlignment
from acryo import _utils
from acryo.classification import PcaClassifier
from acryo.pick import LoGPicker, DoGPicker, ZNCCTemplateMatcher
warnings.simplefilter("ignore")
rng = np.random.default_rng(1)
def sec(t): print("\n==", t)

sec("C07 score vs pearson, landscape centre, zero-range align")
shape=(8,9,10)
t = rng.normal(size=shape).astype(np.float32); img = (0.6*t + 0.8*rng.normal(size=shape)).astype(np.float32)
zz,yy,xx = np.indices(shape); c=(np.array(shape)-1)/2
mask = (np.sqrt((zz-c[0])**2+(yy-c[1])**2+(xx-c[2])**2) < 3.5).astype(np.float32)
q = R.from_rotvec([0.3,0.2,-0.4]).as_quat()
for M in [ZNCCAlignment]:
    for kw in [dict(), dict(mask=mask), dict(cutoff=0.4), dict(tilt=(-50,50)), dict(mask=mask,cutoff=0.4,tilt=(-50,50))]:
        m = M(t, **kw)
        s = float(m.score(img, q, np.zeros(3)))
        l = m.landscape(img, (1,1,1), quaternion=q); lc = float(l[1,1,1])
        a = float(m.align(img, (0,0,0), quaternion=q).score)
        # reference pearson using library primitives
        from acryo.backend import Backend
        xp = Backend()
        mk = kw.get("mask", np.ones(shape,np.float32))
        def prep(x):
            ft = m.pre_transform(xp.asarray(x*mk), xp) * m.get_missing_wedge_mask(q)
            return np.fft.ifftn(ft).real
        A,B = prep(img), prep(t)
        if M is ZNCCAlignment: ref = np.corrcoef(A.ravel(),B.ravel())[0,1]
        elif M is NCCAlignment: ref = (A*B).sum()/np.sqrt((A*A).sum()*(B*B).sum())
        else: ref = np.nan
        print(f"{M.__name__[:4]} {sorted(kw)}: score={s:.5f} land_c={lc:.5f} align0={a:.5f} ref={ref:.5f}")

sec("C17 fsc self")
for shape in [(6,6,6),(5,6,7),(7,7,7)]:
    a = rng.normal(size=shape).astype(np.float32)
    f, v = _utils.fourier_shell_correlation(a, a, dfreq=1/min(shape))
    print(shape, np.round(v,4), "nshell", len(v))
    b = rng.normal(size=shape).astype(np.float32)
    f1, v1 = _utils.fourier_shell_correlation(a, b, dfreq=0.2); f2, v2 = _utils.fourier_shell_correlation(b, 3*a, dfreq=0.2)
    print("   sym/scale ok:", np.allclose(v1,v2,atol=1e-5), "range", np.nanmin(v1), np.nanmax(v1))

sec("C18 PCA vs exact")
for shp,N in [((4,4,4),7),((8,8,8),9),((8,8,8),12)]:
    X = rng.normal(size=(N,)+shp).astype(np.float32)
    for chunks in [(N,)+shp, (2,)+shp, (3,)+tuple(s//2 for s in shp)]:
        try:
            clf = PcaClassifier(da.from_array(X, chunks=chunks), None, n_components=2, n_clusters=2).run()
            Xc = X.reshape(N,-1); Xc = Xc-Xc.mean(0)
            U,S,Vt = np.linalg.svd(Xc, full_matrices=False)
            print(shp,N,chunks, "sv", np.round(clf.pca.singular_values_,3), "exact", np.round(S[:2],3))
        except Exception as e:
            print(shp,N,chunks,"EXC",type(e).__name__,str(e)[:90])
