import numpy as np, dask, dask.array as da, time, itertools, warnings
from dask.core import flatten
warnings.simplefilter("ignore")
from dask._task_spec import convert_legacy_graph, Task, DataNode, Alias
import dask._task_spec as ts
print([n for n in dir(ts) if not n.startswith('_')][:60])

class Sched:
    def __init__(self, chooser): self.chooser = chooser; self.trace=[]
    def __call__(self, dsk, keys, **kw):
        dsk = dsk if isinstance(dsk, dict) else dsk.__dask_graph__()
        dsk = convert_legacy_graph(dsk)
        deps = {k: set(v.dependencies) for k,v in dsk.items()}
        done = {}
        remaining = set(dsk)
        while remaining:
            ready = sorted((k for k in remaining if deps[k] <= done.keys()), key=str)
            k = self.chooser(ready, len(self.trace))
            self.trace.append(k)
            done[k] = dsk[k](done)
            remaining.discard(k)
        def pack(ks):
            if isinstance(ks, list): return [pack(x) for x in ks]
            return done[ks]
        return pack(keys)

x = da.from_array(np.arange(24.).reshape(4,6), chunks=(2,3))
s = Sched(lambda ready,i: ready[-1])
with dask.config.set(scheduler=s):
    r = (x+1).sum(axis=0).compute()
print(r, len(s.trace))
from acryo import SubtomogramLoader, Molecules
tomo = np.random.default_rng(0).normal(size=(14,14,14)).astype(np.float32)
ld = SubtomogramLoader(tomo, Molecules([[5,5,5],[7,7,7],[6,8,5]]), order=1, output_shape=(4,4,4))
for pick in [0,-1]:
    s = Sched(lambda ready,i: ready[pick])
    with dask.config.set(scheduler=s):
        t0=time.time(); out = ld.align(np.random.default_rng(1).normal(size=(4,4,4)).astype(np.float32), max_shifts=1.0); dt=time.time()-t0
    print(len(s.trace), dt, out.molecules.pos[0], [str(k)[:40] for k in s.trace[:6]])
