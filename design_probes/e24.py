import ast, sys, pathlib
root = pathlib.Path("/repo/acryo")
MUT = (ast.Dict, ast.List, ast.Set, ast.ListComp, ast.DictComp, ast.SetComp)
def is_cache_deco(d):
    s = ast.unparse(d)
    return "lru_cache" in s or s.endswith("cache") or "cache(" in s
sites=[]
for f in sorted(root.rglob("*.py")):
    tree = ast.parse(f.read_text())
    rel = f.relative_to(root.parent)
    for node in tree.body:
        if isinstance(node,(ast.Assign,ast.AnnAssign)) and node.value is not None:
            v=node.value
            if isinstance(v,MUT) or (isinstance(v,ast.Call) and ast.unparse(v.func) in ("dict","list","set","defaultdict","np.zeros","np.empty","np.array","np.ones","ImageReaderRegistry","Backend")):
                tg = node.targets[0] if isinstance(node,ast.Assign) else node.target
                sites.append((str(rel), node.lineno, "module-mutable", ast.unparse(tg)))
    for node in ast.walk(tree):
        if isinstance(node,(ast.FunctionDef,)):
            if any(is_cache_deco(d) for d in node.decorator_list):
                sites.append((str(rel), node.lineno, "memoised", node.name))
        if isinstance(node, ast.ClassDef):
            for item in node.body:
                if isinstance(item,(ast.Assign,ast.AnnAssign)) and item.value is not None:
                    tg = item.targets[0] if isinstance(item,ast.Assign) else item.target
                    sites.append((str(rel), item.lineno, "class-attr", f"{node.name}.{ast.unparse(tg)}"))
                if isinstance(item, ast.FunctionDef) and item.name!="__init__":
                    for sub in ast.walk(item):
                        if isinstance(sub,(ast.Assign,ast.AugAssign)):
                            tgs = sub.targets if isinstance(sub,ast.Assign) else [sub.target]
                            for tg in tgs:
                                s = ast.unparse(tg)
                                if s.startswith("self.") or s.startswith("cls.") or (isinstance(tg,ast.Attribute) and isinstance(tg.value,ast.Name) and tg.value.id[:1].isupper()):
                                    sites.append((str(rel), sub.lineno, "attr-store-outside-init", f"{node.name}.{item.name}: {s}"))
    for node in ast.walk(tree):
        if isinstance(node, ast.Assign):
            for tg in node.targets:
                s=ast.unparse(tg)
                if s.startswith("Backend._default"): sites.append((str(rel), node.lineno, "global-rebind", s))
for s in sites: print(*s)
print(len(sites))
