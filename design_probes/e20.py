import numpy as np, warnings, time, itertools
warnings.simplefilter("ignore")
import dask; dask.config.set(scheduler="synchronous")
from scipy.spatial.transform import Rotation as R
from acryo import Molecules, SubtomogramLoader
from acryo.alignment import ZNCCAlignment, PCCAlignment, NCCAlignment
from acryo._rotation import normalize_rotations

# analytic particle
rp = np.random.default_rng(5)
C = rp.uniform(-3.0,3.0,(6,3)); S = rp.uniform(1.0,1.5,6); A = rp.uniform(0.5,1,6)
def g(x):  # x: (...,3) particle-frame coords (zyx)
    out = 0
    for c,s,a in zip(C,S,A): out = out + a*np.exp(-((x-c)**2).sum(-1)/(2*s*s))
    return out
def template(n):
    k = np.stack(np.indices((n,n,n)),-1) - (n-1)/2
    return g(k).astype(np.float32)
def tomogram(shape, pstar_px, Rstar):
    x = np.stack(np.indices(shape),-1).astype(float) - pstar_px
    xl = Rstar.inv().apply(x.reshape(-1,3)).reshape(x.shape)
    return g(xl).astype(np.float32)

# patched correct update for calibration only
def correct_update(mol, s_nm, q):
    return mol.translate_internal(s_nm).rotate_by_rotvec_internal(q.as_rotvec())

n=16; tmp = template(n)
rots = ((0,0),(0,0),(30,30))
Q = R.from_quat(normalize_rotations(rots))
worst=0
t0=time.time(); cnt=0
for Rstar in [R.identity(), R.from_rotvec([0.4,-0.7,0.5]), R.from_euler("z",90,degrees=True)]:
  for scale in [1.0, 0.32]:
    pstar_px = np.array([15.3, 16.1, 14.8])
    tomo = tomogram((32,32,32), pstar_px, Rstar)
    for qi in range(len(Q)):
      for m in [(0,0,0),(2,0,0),(0,-2.5,0),(0,0,3),(2,-3,1),(-1.5,2,-2)]:
        for order in [1,3]:
          for Mdl in [ZNCCAlignment, PCCAlignment]:
            q = Q[qi]
            Rin = Rstar*q.inv()
            pin = pstar_px - Rin.apply(np.array(m))
            mol = Molecules((pin*scale)[None], R.from_quat(Rin.as_quat()[None]))
            ld = SubtomogramLoader(tomo, mol, order=order, scale=scale)
            out = ld.align(tmp, max_shifts=3.5*scale, rotations=rots, alignment_model=Mdl)
            f = out.molecules.features
            s_nm = np.array([[f["align-dz"][0], f["align-dy"][0], f["align-dx"][0]]])
            qv = R.from_rotvec([[f["align-dzrot"][0], f["align-dyrot"][0], f["align-dxrot"][0]]])
            fixed = correct_update(mol, s_nm, qv)
            err_fixed = np.abs(fixed.pos[0]/scale - pstar_px).max()
            err_cur = np.abs(out.molecules.pos[0]/scale - pstar_px).max()
            ang = (fixed.rotator.inv()*R.from_quat(Rstar.as_quat()[None])).magnitude()[0]
            cnt+=1
            key=(Mdl.__name__,order); W=globals().setdefault("W",{}); W[key]=max(W.get(key,0),err_fixed); B=globals().setdefault("B",{}); 
            if qi!=1 and any(m): B[key]=min(B.get(key,9),err_cur)
            if err_fixed>worst: worst=err_fixed; wcase=(Rstar.as_rotvec().round(2).tolist(), scale, qi, m, order, Mdl.__name__, round(err_fixed,3), round(err_cur,3), round(ang,4))
print("cases",cnt,"worst error of CORRECT update (px):", worst, wcase, f"{(time.time()-t0)/cnt*1000:.0f} ms/case")
print("worst correct by (model,order):",{k:round(v,3) for k,v in W.items()}); print("min error of CURRENT code on nontrivial cases:",{k:round(v,3) for k,v in B.items()})
