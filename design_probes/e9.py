import sys, threading, dis, time, numpy as np, warnings, opcode
warnings.simplefilter("ignore")
from acryo.alignment import ZNCCAlignment
from acryo.alignment import _base
from acryo.backend import _api, Backend

TRACED_FILES = {_base.__file__, _api.__file__}
CALLS = {opcode.opmap[n] for n in opcode.opmap if n.startswith("CALL")}
SPECIAL = {opcode.opmap.get("RESUME"), opcode.opmap.get("JUMP_BACKWARD")}

class Deadlock(Exception): pass

class Explorer:
    """one execution under a given choice prefix; default = keep running current thread"""
    def __init__(self, bodies, prefix):
        self.bodies = bodies; self.prefix = list(prefix)
        self.n = len(bodies)
        self.sems = [threading.Semaphore(0) for _ in bodies]
        self.done = [False]*self.n; self.results=[None]*self.n; self.errors=[None]*self.n
        self.points = []   # (running, enabled list)
        self.choices = []
        self.current = None
        self.main_sem = threading.Semaphore(0)
        self.lastop = {}
    def _trace(self, tid):
        def local(frame, event, arg):
            if event == "opcode":
                code = frame.f_code.co_code; op = code[frame.f_lasti]
                prev = self.lastop.get(id(frame)); self.lastop[id(frame)] = op
                if (prev in CALLS) or op in SPECIAL:
                    self.point(tid, (frame.f_code.co_name, frame.f_lineno, frame.f_lasti))
            return local
        def glob(frame, event, arg):
            if frame.f_code.co_filename in TRACED_FILES and frame.f_code.co_name in ("get","set","_get_template_and_mask_input","__init__","__hash__"):
                frame.f_trace_opcodes = True
                return local
            return None
        return glob
    def point(self, tid, where):
        enabled = [tid] + [i for i in range(self.n) if i != tid and not self.done[i]]
        i = len(self.points)
        if i < len(self.prefix): c = self.prefix[i]
        else: c = 0
        self.points.append((tid, enabled, where)); self.choices.append(c)
        nxt = enabled[c]
        if nxt != tid:
            self.current = nxt
            self.sems[nxt].release()
            self.sems[tid].acquire()
    def _run(self, tid):
        self.sems[tid].acquire()
        sys.settrace(self._trace(tid))
        try: self.results[tid] = self.bodies[tid]()
        except BaseException as e: self.errors[tid] = e
        finally:
            sys.settrace(None)
            self.done[tid] = True
            rest = [i for i in range(self.n) if not self.done[i]]
            if rest:
                # thread end is a scheduling point with choices among rest
                i = len(self.points); c = self.prefix[i] if i < len(self.prefix) else 0
                self.points.append((None, rest, "exit")); self.choices.append(c)
                self.sems[rest[c]].release()
            else: self.main_sem.release()
    def run(self):
        ths = [threading.Thread(target=self._run, args=(i,)) for i in range(self.n)]
        for t in ths: t.start()
        self.sems[0].release()
        self.main_sem.acquire()
        for t in ths: t.join()
        return self

rng = np.random.default_rng(0)
t = rng.normal(size=(6,6,6)).astype(np.float32)
imgs = [rng.normal(size=(6,6,6)).astype(np.float32) for _ in range(3)]

def make():
    model = ZNCCAlignment(t)
    q = np.array([0,0,0,1.]); p = np.zeros(3)
    return [lambda i=i: float(model.score(imgs[i], q, p)) for i in range(2)]

def explore(bound):
    stack=[[]]; nexec=0; errs=0; outcomes=set(); first=None
    t0=time.time()
    while stack:
        prefix = stack.pop()
        ex = Explorer(make(), prefix).run(); nexec+=1
        out = tuple(type(e).__name__ if e else round(r,6) for r,e in zip(ex.results, ex.errors)); outcomes.add(out)
        if any(ex.errors) and first is None: first=(ex.choices, [str(e) for e in ex.errors], [ex.points[i][2] for i,c in enumerate(ex.choices) if c])
        # preemptions count
        def cost(choices, upto):
            return sum(1 for j in range(upto) if choices[j]!=0 and ex.points[j][0] is not None)
        for i in range(len(prefix), len(ex.points)):
            running, enabled, _ = ex.points[i]
            base = cost(ex.choices, i)
            for alt in range(1, len(enabled)):
                c = base + (1 if running is not None else 0)
                if c > bound: continue
                stack.append(ex.choices[:i]+[alt])
    return nexec, outcomes, first, time.time()-t0
for b in [0,1,2]:
    n, outs, first, dt = explore(b)
    print("bound",b,"execs",n,"outcomes",outs, f"{dt:.1f}s")
    if first: print("  first error:", first)
