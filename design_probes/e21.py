import numpy as np, warnings, itertools
warnings.simplefilter("ignore")
from acryo.alignment import PCCAlignment, ZNCCAlignment, FSCAlignment
def blobs(shape, d=(0,0,0), seed=0, smin=1.0, smax=1.4):
    r = np.random.default_rng(seed)
    zz,yy,xx = np.indices(shape).astype(np.float64); c = (np.array(shape)-1)/2
    img = np.zeros(shape)
    for i in range(4):
        off = r.uniform(-1.5,1.5,3); s = r.uniform(smin,smax); a = r.uniform(0.5,1)
        cz,cy,cx = c+off+np.array(d)
        img += a*np.exp(-((zz-cz)**2+(yy-cy)**2+(xx-cx)**2)/(2*s*s))
    return img.astype(np.float32)
for M in [PCCAlignment, FSCAlignment]:
  for shape in [(12,12,12),(11,11,11),(10,12,14)]:
    for smin,smax in [(1.0,1.4),(0.8,1.0)]:
        t = blobs(shape,smin=smin,smax=smax); model = M(t)
        inner=0; edge=0; wi=None
        vals = [-2,-1.3,-0.5,0,0.25,1,1.7,2]
        grid = list(itertools.product(vals, repeat=3))
        if M is FSCAlignment: grid=grid[::5]
        for d in grid:
            img = blobs(shape, d, smin=smin,smax=smax)*3+0.5
            r = model.align(img, (2,2,2))
            e = np.abs(r.shift-np.array(d))
            onedge = np.abs(np.array(d))>=1.3  # within 0.75 of the boundary
            if e[~onedge].size and e[~onedge].max()>inner: inner=e[~onedge].max(); wi=(d, r.shift.round(2).tolist())
            if e[onedge].size: edge=max(edge, e[onedge].max())
        print(M.__name__, shape, (smin,smax), f"inner-axis worst {inner:.3f} {wi}  edge-axis worst {edge:.3f}")
