import numpy as np, warnings
warnings.simplefilter("ignore")
import dask; dask.config.set(scheduler="synchronous")
from acryo import SubtomogramLoader, Molecules, _utils
rng=np.random.default_rng(0)
img = rng.normal(size=(12,13,14)).astype(np.float32)
b=2; s=1; j=2
for scale in [0.7, 1.0, 0.5]:
    pos = ((np.array([j,j,j])+0.5)*b-0.5)*scale
    ld = SubtomogramLoader(img, Molecules([pos]), order=0, scale=scale, output_shape=(s,s,s))
    bl = ld.binning(b)
    a = bl.load(0); big = ld.load(0, output_shape=(b*s,)*3)
    print(scale, "pos/scale", (ld.molecules.pos/scale)[0], "big", big.ravel()[:8], "orig block", img[4:6,4:6,4:6].ravel()[:8])
    print("   binned read", a.ravel(), "binned img[2,2,2]", bl.image[2,2,2], "ref", _utils.bin_image(big,b).ravel())
