import numpy as np, warnings, itertools
warnings.simplefilter("ignore")
import dask; dask.config.set(scheduler="synchronous")
from scipy.spatial.transform import Rotation as R
from acryo import SubtomogramLoader, Molecules, _utils

# CUBE24
def cube24():
    mats=[]
    for perm in itertools.permutations(range(3)):
        for signs in itertools.product([1,-1],repeat=3):
            M=np.zeros((3,3)); 
            for i,(p,s) in enumerate(zip(perm,signs)): M[i,p]=s
            if np.linalg.det(M)>0: mats.append(M)
    return mats
mats=cube24(); print(len(mats))
rng=np.random.default_rng(0)
tomo=rng.normal(size=(15,16,17)).astype(np.float32)
worst={}
for shape,pos in [((3,3,3),(7,8,8)),((5,4,3),(7,7.5,8)),((4,4,4),(7.5,7.5,8.5)),((3,5,4),(7,8,8.5))]:
    for order in [0,1,3]:
        for cs in [False,True]:
            w=0;nskip=0
            for M in mats:
                # need rotated grid to land on integers: R(k-c)+p integer for all k
                k = np.stack(np.indices(shape),-1).reshape(-1,3) - (np.array(shape)-1)/2
                x = np.array(pos) + k@M.T
                if not np.allclose(x, np.round(x)): nskip+=1; continue
                xi = np.round(x).astype(int)
                exp = tomo[xi[:,0],xi[:,1],xi[:,2]].reshape(shape)
                ld = SubtomogramLoader(tomo, Molecules([pos], R.from_matrix(M[None])), order=order, output_shape=shape, corner_safe=cs)
                got = ld.load(0)
                w=max(w, np.abs(got-exp).max())
            worst[(shape,order,cs)]=(w,nskip)
for k,v in worst.items(): print(k, "max err %.2e skipped %d"%v)

print("\n== binning identity")
img = rng.normal(size=(12,13,14)).astype(np.float32)
for b in [2,3,4]:
  for s in [1,2,3]:
    for order in [0,1,3]:
        for j in [1,2]:
            scale=0.7
            pos = ((np.array([j,j,j])+0.5)*b-0.5)*scale
            ld = SubtomogramLoader(img, Molecules([pos]), order=order, scale=scale, output_shape=(s,s,s))
            bl = ld.binning(b)
            a = bl.load(0)
            big = ld.load(0, output_shape=(b*s,)*3)
            ref = _utils.bin_image(big, b)
            e1 = np.abs(a-ref).max()
            e2 = np.abs(bl.molecules.pos/bl.scale - j).max()
            if e1>1e-4 or e2>1e-4: print("b",b,"s",s,"order",order,"j",j,"err",e1,e2)
print("done")
