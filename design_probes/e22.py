import numpy as np, warnings, itertools, tempfile, os
warnings.simplefilter("ignore")
import dask, dask.array as da; dask.config.set(scheduler="synchronous")
from scipy.spatial.transform import Rotation as R
import polars as pl
from acryo import Molecules, SubtomogramLoader, BatchLoader, TomogramSimulator, pipe, _utils
rng = np.random.default_rng(0)
def sec(t): print("\n==", t)

sec("C14 additivity / 2D / clipping (odd template)")
t = rng.random((5,5,5)).astype(np.float32)
mols = [Molecules([[10,10,10]]), Molecules([[12.3,9.1,14.7]], R.from_rotvec([[0.4,-0.7,0.5]])), Molecules([[1,18,10]]), Molecules([[-9,5,5]])]
def sim(ms, order=1, shape=(20,22,24)):
    s = TomogramSimulator(order=order)
    for i,m in enumerate(ms): s.add_molecules(m, t, name=str(i))
    return s
full = sim(mols).simulate((20,22,24))
parts = sum(sim([m]).simulate((20,22,24)) for m in mols)
print("additive:", np.abs(full-parts).max(), " perm:", np.abs(full - sim(mols[::-1]).simulate((20,22,24))).max())
one = sim([Molecules.concat(mols)]).simulate((20,22,24)); print("single component == 4 components:", np.abs(one-full).max())
p2 = sim(mols[:2]).simulate_2d((22,24)); p3 = sim(mols[:2]).simulate((40,22,24)).sum(0)
print("2d vs proj:", np.abs(p2-p3).max(), p2.sum(), p3.sum())
p2 = sim(mols[:3]).simulate_2d((22,24)); p3 = sim(mols[:3]).simulate((40,22,24)).sum(0)
print("2d vs proj (with z-straddling molecule):", np.abs(p2-p3).max())

sec("C17 loader-level fsc == fsc of own halfmaps")
tomo = rng.normal(size=(20,20,40)).astype(np.float32)
mol = Molecules(rng.uniform(6,14,(6,3))+np.array([0,0,10]), features={"g":[0,1,0,1,0,1]})
ld = SubtomogramLoader(tomo, mol, order=1, output_shape=(6,6,6))
mask = np.zeros((6,6,6),np.float32); mask[1:5,1:5,1:5]=1
for mk in [None, mask, pipe.from_array(mask)]:
    df, (h0,h1), m_ = ld.fsc_with_halfmaps(mask=mk, seed=1, dfreq=0.2)
    mm = 1.0 if mk is None else mask
    f, v = _utils.fourier_shell_correlation(h0*mm, h1*mm, dfreq=0.2)
    print(type(mk).__name__, "consistent:", np.allclose(df["FSC-0"].to_numpy(), v, atol=1e-5, equal_nan=True), " repeat same:", df.equals(ld.fsc_with_halfmaps(mask=mk, seed=1, dfreq=0.2)[0]))
g = ld.groupby("g")
d1 = g.fsc(mask=mask, seed=1, dfreq=0.2); d2 = g.fsc(mask=pipe.from_array(mask), seed=1, dfreq=0.2); d0 = g.fsc(mask=None, seed=1, dfreq=0.2)
print("group: provider mask == array mask:", d1[0].equals(d2[0]), "; provider mask == no mask:", d2[0].equals(d0[0]))

sec("C19 compose / assoc / curry")
a = pipe.gaussian_filter(sigma=1.0); b = pipe.shift((1.0,0,0)); c = pipe.dilation(1.0)
img = rng.random((6,6,6)).astype(np.float32)
x1 = ((a@b))(img, 0.5); x2 = a(b(img,0.5),0.5); print("conv@conv:", np.abs(x1-x2).max())
pv = pipe.from_array(img)
print("conv@prov:", np.abs((a@pv)(0.5) - a(pv(0.5),0.5)).max())
th = pipe.threshold_otsu()
print("assoc:", np.abs(((a@b)@a)(img,1.0) - (a@(b@a))(img,1.0)).max())
print("ops: p+p", np.allclose((pv+pv)(1.0), 2*img), " 2*p", np.allclose((2*pv)(1.0), 2*img), " p/2", np.allclose((pv/2)(1.0), img/2), " 2-p", np.allclose((2-pv)(1.0), 2-img), " 2/p", np.allclose((2/(pv+1))(1.0), 2/(img+1)), " -p", np.allclose((-pv)(1.0), -img))
print("cmp: p<0.5", np.array_equal((pv<0.5)(1.0), img<0.5))
for nm,fn in [("p<p",lambda: (pv<(pv*0+0.5))(1.0)),("p>=p",lambda: (pv>=(pv*0+0.5))(1.0)),("p==p",lambda: (pv==pv)(1.0)),("0.5>p",lambda: (0.5>pv)(1.0)),("c<c",lambda: (a<b)(img,1.0)),("c<p",lambda: (a<pv)(img,1.0))]:
    try: r=fn(); print(nm,"ok",r.dtype, end="; ")
    except Exception as e: print(nm,"EXC",type(e).__name__, end="; ")
print()
print("conv ops: a+b", np.allclose((a+b)(img,1.0), a(img,1.0)+b(img,1.0)), " 2-a", np.allclose((2-a)(img,1.0), 2-a(img,1.0)), " a*p", np.allclose((a*pv)(img,1.0), a(img,1.0)*img))
for lam in [0.5,2,3.7]:
    print("scale cov", lam, "gauss", np.abs(pipe.gaussian_filter(sigma=1.0*lam)(img, 0.5*lam)-pipe.gaussian_filter(sigma=1.0)(img,0.5)).max(),
          "dil", (pipe.dilation(1.3*lam)(img>0.5, 0.5*lam)!=pipe.dilation(1.3)(img>0.5,0.5)).sum(),
          "smooth", np.abs(pipe.gaussian_smooth(1.0*lam)(img>0.8, 0.5*lam)-pipe.gaussian_smooth(1.0)(img>0.8,0.5)).max(),
          "shift", np.abs(pipe.shift((1.0*lam,0,0))(img,0.5*lam)-pipe.shift((1.0,0,0))(img,0.5)).max(),
          "gaussian prov shape", pipe.from_gaussian((3.0*lam,)*3, sigma=0.5*lam)(0.5*lam).shape)
ramp = np.indices((6,6,6))[0].astype(np.float32)
z = pipe.from_array(ramp, original_scale=1.0)(0.5); print("rescale:", z.shape, z[:,0,0].round(2))
print("unchanged within tol is same object:", pipe.from_array(ramp, original_scale=1.0)(1.005) is ramp)
bw = img>0.6
for r in [1.0,2.0]:
    d = pipe.dilation(r)(bw,1.0); e = pipe.dilation(-r)(bw,1.0); cl = pipe.closing(r)(bw,1.0); op = pipe.closing(-r)(bw,1.0)
    print("r",r,"dil⊇", bool((d>=bw).all()), "ero⊆", bool((e<=bw).all()), "clo⊇", bool((cl>=bw).all()), "open⊆", bool((op<=bw).all()))
sm = pipe.gaussian_smooth(1.0)(bw,1.0); print("smooth>=", bool((sm>=bw-1e-6).all()), sm.min(), sm.max())
so = pipe.soft_otsu(1.0,1.0)(img,1.0); print("soft_otsu range", so.min(), so.max())
@pipe.provider_function
def p0(): return np.ones((2,2,2))
@pipe.provider_function
def p1(scale): return np.full((2,2,2), scale)
@pipe.provider_function
def p2(scale, k, j=1): return np.full((2,2,2), scale*k+j)
@pipe.converter_function
def c0(): return np.ones((2,2,2))
@pipe.converter_function
def c1(img): return img*2
@pipe.converter_function
def c3(img, scale, k, j=1): return img*scale*k+j
print("curry:", p0()(3.0)[0,0,0], p1()(3.0)[0,0,0], p2(2, j=5)(3.0)[0,0,0], c0()(np.ones((2,2,2)),1.0)[0,0,0], c1()(np.ones((2,2,2)),1.0)[0,0,0], c3(2,j=5)(np.ones((2,2,2)),3.0)[0,0,0])
