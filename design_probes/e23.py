import numpy as np, warnings, itertools, tempfile, os, time
warnings.simplefilter("ignore")
import dask, dask.array as da; dask.config.set(scheduler="synchronous")
from scipy.spatial.transform import Rotation as R
import polars as pl
from acryo import Molecules, SubtomogramLoader, BatchLoader, TomogramSimulator
from acryo.pick import ZNCCTemplateMatcher
from acryo._rotation import normalize_rotations
rng = np.random.default_rng(0)
def sec(t): print("\n==", t)
def gauss(shape, centers, sig, amps=None):
    zz,yy,xx = np.indices(shape).astype(np.float32); img=np.zeros(shape,np.float32)
    for i,c in enumerate(centers):
        img += (1 if amps is None else amps[i])*np.exp(-((zz-c[0])**2+(yy-c[1])**2+(xx-c[2])**2)/(2*sig**2))
    return img

sec("C18 classify: planted patterns")
n=7; c=(n-1)/2
pA = gauss((n,n,n), [(c,c,c)], 1.2); pB = gauss((n,n,n), [(c-1.5,c,c),(c+1.5,c,c)], 1.0)
N=5; bad=0; tot=0
for pattern in itertools.product([0,1], repeat=N):
    if len(set(pattern))<2: continue
    tomo = np.zeros((12,12,12*N),np.float32)
    pos=[]
    for i,cl in enumerate(pattern):
        tomo[2:2+n, 2:2+n, 12*i+2:12*i+2+n] += (pA if cl==0 else pB)
        pos.append([2+c,2+c,12*i+2+c])
    tomo += rng.normal(scale=0.01,size=tomo.shape).astype(np.float32)
    mol = Molecules(pos, features={"uid": list(range(N))})
    ld = SubtomogramLoader(tomo, mol, order=1, output_shape=(n,n,n))
    res = ld.classify(n_components=2, n_clusters=2, seed=0)
    lab = res.loader.molecules.features["cluster"].to_list()
    ok = all((lab[i]==lab[j]) == (pattern[i]==pattern[j]) for i in range(N) for j in range(N))
    tot+=1; bad += (not ok)
    same = np.allclose(res.loader.molecules.pos, mol.pos) and res.loader.molecules.features["uid"].to_list()==list(range(N))
    if not ok or not same: print(pattern, lab, same)
print("patterns", tot, "bad", bad)

sec("C20 ZNCC template matcher on numpy")
tn=9; tc=(tn-1)/2
tmpl = gauss((tn,tn,tn), [(tc,tc,tc),(tc+2,tc,tc+1),(tc,tc-2,tc+1.5)], 1.0, [1,0.8,0.6])
rots = ((0,0),(0,0),(40,40))
Q = R.from_quat(normalize_rotations(rots))
from acryo._utils import compose_matrices
from scipy import ndimage as ndi
img = np.zeros((30,30,30),np.float32)
sites = [(8,8,8),(8,20,14),(20,10,20)]
for s,qi in zip(sites,[0,1,2]):
    mtx = compose_matrices(np.array(tmpl.shape)/2-0.5, [Q[qi].inv()])[0]
    rt = ndi.affine_transform(tmpl, mtx, order=3)
    z,y,x = [int(v-tc) for v in s]
    img[z:z+tn,y:y+tn,x:x+tn] += rt
t0=time.time()
m = ZNCCTemplateMatcher(tmpl, rotation=rots).pick_molecules(img, scale=1.0, min_distance=4.0, min_score=0.5)
print("picks", np.round(m.pos,1).tolist(), "score", np.round(m.features["score"].to_numpy(),2), f"{time.time()-t0:.2f}s")
print("rot idx ok:", [int(np.argmax(np.abs(Q.as_quat()@q))) for q in m.quaternion()])
m2 = ZNCCTemplateMatcher(tmpl, rotation=rots).pick_molecules(img, scale=2.0, min_distance=8.0, min_score=0.5)
print("scale 2 picks", np.round(m2.pos,1).tolist())

sec("C09 group average == filter average; batch weighted")
tomo = rng.normal(size=(16,16,16)).astype(np.float32)
mol = Molecules(rng.uniform(5,10,(5,3)), R.random(5, random_state=1), features={"g":[0,1,0,2,1]})
ld = SubtomogramLoader(tomo, mol, order=1, output_shape=(4,4,4))
ga = ld.groupby("g").average()
print({k: float(np.abs(v - ld.filter(pl.col("g")==k).average()).max()) for k,v in ga.items()})
tomo2 = rng.normal(size=(16,16,16)).astype(np.float32)
b = BatchLoader(order=1, output_shape=(4,4,4)); b.add_tomogram(tomo, mol.subset(slice(0,3))); b.add_tomogram(tomo2, mol.subset(slice(3,5)))
l1 = SubtomogramLoader(tomo, mol.subset(slice(0,3)), order=1, output_shape=(4,4,4)); l2 = SubtomogramLoader(tomo2, mol.subset(slice(3,5)), order=1, output_shape=(4,4,4))
print("batch weighted:", np.abs(b.average() - (3*l1.average()+2*l2.average())/5).max())
hs = ld.average_split(n_set=3, seed=5); print("split shape", hs.shape, "n=1:", SubtomogramLoader(tomo, mol.subset(0), order=1, output_shape=(4,4,4)).average_split().shape)
