import numpy as np, warnings, itertools, time
warnings.simplefilter("ignore")
from scipy import ndimage as ndi
import dask; dask.config.set(scheduler="synchronous")
from acryo.alignment import FSCAlignment, PCCAlignment, ZNCCAlignment
from acryo import SubtomogramLoader, Molecules, TomogramSimulator

def blobs(shape, d=(0,0,0), seed=0, smin=0.7, smax=1.0, nb=8, spread=2.0):
    r = np.random.default_rng(seed)
    zz,yy,xx = np.indices(shape).astype(np.float64)
    c = (np.array(shape)-1)/2
    img = np.zeros(shape)
    for i in range(nb):
        off = r.uniform(-spread,spread,3); s = r.uniform(smin,smax); a = r.uniform(0.5,1)*(1 if i%3 else -0.6)
        cz,cy,cx = c+off+np.array(d)
        img += a*np.exp(-((zz-cz)**2+(yy-cy)**2+(xx-cx)**2)/(2*s*s))
    return img.astype(np.float32)

for M in [FSCAlignment, ZNCCAlignment, PCCAlignment]:
  for shape in [(12,12,12),(11,11,11),(10,12,14)]:
    t = blobs(shape); model = M(t)
    worst=0; wd=None
    vals=[-2,-1.3,0,0.25,1.7,2] if M is FSCAlignment else [-2,-1.3,-0.5,0,0.25,1,1.7,2]
    grid = list(itertools.product(vals, repeat=3))
    if M is FSCAlignment: grid = grid[::3]
    t0=time.time()
    for d in grid:
        img = blobs(shape, d)*3+0.5
        r = model.align(img, (2,2,2))
        e = np.max(np.abs(r.shift-np.array(d)))
        if e>worst: worst,wd = e,(d,np.round(r.shift,2).tolist(),round(float(r.score),3))
    print(M.__name__, shape, f"worst {worst:.2f}", wd, f"{(time.time()-t0)/len(grid)*1000:.0f}ms/align n={len(grid)}")

print("\n== spline exactness at integer coords (order 3), loader & simulator")
rng = np.random.default_rng(0)
tomo = rng.normal(size=(15,15,15)).astype(np.float32)
for order in [0,1,3]:
    sub = SubtomogramLoader(tomo, Molecules([[7,7,7]]), order=order, output_shape=(5,5,5)).load(0)
    print("loader order",order,"max err vs block", np.abs(sub - tomo[5:10,5:10,5:10]).max())
    t = rng.random((5,5,5)).astype(np.float32)
    sim = TomogramSimulator(order=order); sim.add_molecules(Molecules([[7,7,7]]), t)
    T = sim.simulate((15,15,15)); print("   sim paste err", np.abs(T[5:10,5:10,5:10]-t).max(), "outside", np.abs(T).sum()-np.abs(T[5:10,5:10,5:10]).sum())
