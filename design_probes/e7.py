import numpy as np, warnings, time, itertools
import dask, dask.array as da
dask.config.set(scheduler="synchronous")
from scipy.spatial.transform import Rotation as R
from acryo import Molecules, SubtomogramLoader, BatchLoader
from acryo.classification import PcaClassifier
from acryo.pick import LoGPicker, DoGPicker, ZNCCTemplateMatcher
import polars as pl
warnings.simplefilter("ignore")
rng = np.random.default_rng(1)
def sec(t): print("\n==", t)

sec("C18 PCA N=40 randomized")
N=40; shp=(8,8,8)
X = rng.normal(size=(N,)+shp).astype(np.float32)
Xc = X.reshape(N,-1); Xc = Xc-Xc.mean(0); S = np.linalg.svd(Xc, compute_uv=False)
for rep in range(2):
    clf = PcaClassifier(da.from_array(X, chunks=(10,)+shp), None, n_components=2).run()
    print("sv", clf.pca.singular_values_, "exact", S[:2])

sec("C20 pickers chunking")
def planted(shape, centers, sigma):
    zz,yy,xx = np.indices(shape).astype(np.float32); img = np.zeros(shape,np.float32)
    for c in centers: img += np.exp(-((zz-c[0])**2+(yy-c[1])**2+(xx-c[2])**2)/(2*sigma**2))
    return img
shape=(24,24,24); centers=[(6,6,6),(6,17,12),(17,8,16),(16,18,7)]
img = planted(shape, centers, 1.5)
for P in [LoGPicker(sigma=1.5), DoGPicker(1.5, 2.5)]:
    t0=time.time(); m = P.pick_molecules(img, scale=1.0); dt=time.time()-t0
    print(type(P).__name__, "numpy:", np.round(m.pos,1).tolist(), f"{dt:.2f}s")
    for ch in [12, 8, (24,24,12)]:
        try:
            m2 = P.pick_molecules(da.from_array(img, chunks=ch), scale=1.0)
            print("   chunks", ch, "n=", len(m2), np.round(m2.pos[:6],1).tolist())
        except Exception as e: print("   chunks", ch, "EXC", type(e).__name__, str(e)[:80])
# scale != 1
m = LoGPicker(sigma=3.0).pick_molecules(img, scale=2.0); print("scale2:", np.round(m.pos,1).tolist())

sec("C09 average")
tomo = rng.normal(size=(14,14,14)).astype(np.float32)
mol = Molecules(rng.uniform(5,9,(5,3)), R.random(5, random_state=0))
for image in [tomo, da.from_array(tomo, chunks=5)]:
    ld = SubtomogramLoader(image, mol, order=1, output_shape=(4,4,4))
    print("avg==mean:", np.abs(ld.average()-ld.asnumpy().mean(0)).max())
    h = ld.average_split(n_set=2, seed=3); print(h.shape)

sec("C12/C13 quick")
mol = Molecules(rng.uniform(0,9,(4,3)), R.from_rotvec([[0,0,0],[np.pi-1e-7,0,0],[1e-9,0,0],[1,2,-1.5]]), features={"a":[1,2,3,4],"s":["x","y",None,"z"],"b":[True,False,True,None]})
import tempfile, os
d = tempfile.mkdtemp()
for suf in [".csv",".parquet",".pq",".txt"]:
    p = os.path.join(d,"m"+suf); mol.to_file(p); m2 = Molecules.from_file(p)
    ang = (mol.rotator.inv()*m2.rotator).magnitude()
    print(suf, "pos err", np.abs(m2.pos-mol.pos).max(), "rot err", ang.max(), m2.features.dtypes, m2.features.rows()[2])
