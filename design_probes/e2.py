import numpy as np, warnings, time
from scipy.spatial.transform import Rotation as R
from acryo import Molecules, SubtomogramLoader, MockLoader
from acryo.alignment import ZNCCAlignment, PCCAlignment, NCCAlignment, FSCAlignment
import dask
dask.config.set(scheduler="synchronous")

def blob_template(n=16):
    zz,yy,xx = np.indices((n,n,n)).astype(np.float32)
    c=(n-1)/2
    def g(cz,cy,cx,s): return np.exp(-((zz-cz)**2+(yy-cy)**2+(xx-cx)**2)/(2*s*s))
    return (g(c,c,c,2.0)+0.8*g(c+2.5,c,c+1,1.2)+0.6*g(c,c-3,c+2,1.0)+0.5*g(c-2,c+2,c-2,1.0)).astype(np.float32)

tmp = blob_template(16)
# input molecule: pos p, rot Rm. True pose (0, I). Candidates: rotations set
rots = ((0,0),(0,0),(30,30))  # about x? -> z,y,x : (max,step)
for ang in [0, 30, -30]:
    for p in [(0,0,0),(2,0,0),(0,3,0),(2,-3,1)]:
        # input molecule orientation Rm; true = identity => needed internal rotation q = Rm^-1
        from acryo._rotation import euler_to_quat
        q_needed = R.from_quat(euler_to_quat([0,0,ang]))   # searched rotation candidate
        Rm = R.from_quat(q_needed.inv().as_quat()[None])
        mol = Molecules(np.array([p],dtype=np.float32), Rm)
        loader = MockLoader(tmp, mol, order=3, scale=1.0)
        t0=time.time()
        out = loader.align(tmp, max_shifts=4.0, rotations=rots)
        dt=time.time()-t0
        m = out.molecules
        print(f"ang={ang:4d} p={p}: out pos={np.round(m.pos[0],2)}, rot angle={np.degrees(m.rotator.magnitude()[0]):.1f}, score={m.features['score'][0]:.3f}  feats dz,dy,dx={m.features['align-dz'][0],m.features['align-dy'][0],m.features['align-dx'][0]} t={dt:.2f}s")
