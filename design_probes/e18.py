import numpy as np, warnings, polars as pl, time
warnings.simplefilter("ignore")
from scipy.spatial.transform import Rotation as R
from acryo import Molecules
def mk(uids):
    uids=list(uids); n=len(uids)
    pos = np.array([[u, 2*u+0.5, -u] for u in uids], float).reshape(n,3)
    rot = R.from_rotvec(np.array([[0.1*u+0.05, -0.2*u, 0.3] for u in uids]).reshape(n,3)) if n else None
    feats = {"uid": uids, "f": [u*0.5 for u in uids], "s": [None if u==2 else f"n{u}" for u in uids], "b":[None if u==1 else bool(u%2) for u in uids], "k":[u%2 for u in uids]}
    return Molecules(pos, rot, features=pl.DataFrame(feats, schema={"uid":pl.Int64,"f":pl.Float64,"s":pl.Utf8,"b":pl.Boolean,"k":pl.Int64}))
m = mk(range(5))
def uids(x): return x.features["uid"].to_list() if len(x.features.columns) else None
tests = {
 "subset slice": lambda: m.subset(slice(1,4)),
 "subset step": lambda: m.subset(slice(None,None,2)),
 "subset negstep": lambda: m.subset(slice(None,None,-1)),
 "subset list": lambda: m.subset([3,0,0]),
 "subset arr": lambda: m.subset(np.array([4,1])),
 "subset bool arr": lambda: m.subset(np.array([True,False,True,False,True])),
 "subset bool series": lambda: m.subset(pl.Series([True,False,True,False,True])),
 "subset int": lambda: m.subset(2),
 "subset -1": lambda: m.subset(-1),
 "subset 9": lambda: m.subset(9),
 "filter expr": lambda: m.filter(pl.col("uid")>1),
 "filter null col": lambda: m.filter(pl.col("b")),
 "filter list": lambda: m.filter([True,False,True,False,True]),
 "sort k": lambda: m.sort("k"),
 "sort k desc": lambda: m.sort("k", descending=True),
 "sort s (nulls)": lambda: m.sort("s"),
 "head 2": lambda: m.head(2), "tail 2": lambda: m.tail(2), "head 9": lambda: m.head(9),
 "sample 3": lambda: m.sample(3, seed=0), "sample 9": lambda: m.sample(9, seed=0),
 "concat": lambda: Molecules.concat([m.head(2), m.tail(1)]),
 "concat nofeat": lambda: Molecules.concat([m.head(2), Molecules(np.zeros((1,3)))]),
 "concat_with nofeat": lambda: m.head(2).concat_with(Molecules(np.zeros((1,3)))),
 "concat empty list": lambda: Molecules.concat([]),
 "concat empties": lambda: Molecules.concat([Molecules.empty(), Molecules.empty()]),
 "append extra": lambda: mk([0,1]).append(mk([2]).with_features(pl.lit(1).alias("extra"))),
 "append subset cols": lambda: mk([0,1]).append(mk([2]).drop_features("f")),
 "with_features": lambda: m.with_features((pl.col("uid")*2).alias("d")),
 "with_features z": lambda: m.with_features(pl.col("uid").alias("z")).to_dataframe(),
 "drop": lambda: m.drop_features("f","s"),
 "group_by k": lambda: [ (k, uids(g)) for k,g in m.group_by("k")],
 "group_by [k,b]": lambda: [ (k, uids(g)) for k,g in m.group_by(["k","b"])],
 "cutby": lambda: [ (k, uids(g)) for k,g in m.cutby("f",[0.7,1.6])],
 "features len mismatch": lambda: Molecules(np.zeros((2,3)), features={"a":[1,2,3]}),
 "empty filter": lambda: m.filter(pl.col("uid")>99),
 "empty then sort": lambda: m.filter(pl.col("uid")>99).sort("k"),
 "empty concat_with": lambda: m.filter(pl.col("uid")>99).concat_with(m.head(1)),
}
for name, fn in tests.items():
    try:
        out = fn()
        if isinstance(out, Molecules):
            u = uids(out)
            ok = True
            if u is not None and len(out):
                exp = mk(u)
                ok = np.allclose(out.pos, exp.pos) and (out.rotator.inv()*exp.rotator).magnitude().max()<1e-5
            print(f"{name:24s} uids={u} rows_ok={ok} n={len(out)} nfeat={out.features.shape}")
        else: print(f"{name:24s} ->", out if not isinstance(out,pl.DataFrame) else out.shape)
    except Exception as e:
        print(f"{name:24s} EXC {type(e).__name__}: {str(e)[:90]}")
t0=time.time()
for _ in range(200): m.sort("k")
print("sort ms", (time.time()-t0)/200*1000)
