import numpy as np, warnings, time, traceback
from scipy.spatial.transform import Rotation as R
import dask, dask.array as da
dask.config.set(scheduler="synchronous")
from acryo import Molecules, SubtomogramLoader, MockLoader, BatchLoader, TomogramSimulator
from acryo.alignment import ZNCCAlignment, PCCAlignment, NCCAlignment, FSCAlignment
from acryo import _utils, pipe
from acryo._rotation import euler_to_quat, rotate
import polars as pl
warnings.simplefilter("ignore")
rng = np.random.default_rng(0)
def sec(t): print("\n==", t)

def blob_template(n=12, seed=0):
    r = np.random.default_rng(seed)
    zz,yy,xx = np.indices((n,n,n)).astype(np.float32)
    c=(n-1)/2
    img = np.zeros((n,n,n),np.float32)
    for i in range(4):
        cz,cy,cx = c + r.uniform(-2.5,2.5,3)
        s = r.uniform(0.9,1.6)
        img += r.uniform(0.5,1)*np.exp(-((zz-cz)**2+(yy-cy)**2+(xx-cx)**2)/(2*s*s))
    return img

sec("C06 T=2 K=3")
t0, t1 = blob_template(12,1), blob_template(12,2)
rots = ((0,0),(0,0),(40,40))
model = ZNCCAlignment([t0,t1], rotations=rots)
print("quats", np.round(model.quaternions,3))
for j,t in enumerate([t0,t1]):
    for k,ang in enumerate([-40,0,40]):
        img = rotate(t, [0,0,ang], cval=0)
        r = model.align(img, (1,1,1))
        exp_q = euler_to_quat([0,0,ang])
        print(f"true tmpl={j} rot#{k}: label={r.label} -> tmpl={r.label%2} rotidx(//)={r.label//2} reported quat ok={np.allclose(np.abs(r.quat@exp_q),1,atol=1e-4)} score={r.score:.3f}")

sec("C15 batch binning compute=True dask")
imgs = [da.from_array(rng.normal(size=(8,8,8)).astype(np.float32), chunks=4) for _ in range(2)]
b = BatchLoader(order=1)
b.add_tomogram(imgs[0], Molecules([[4,4,4]])); b.add_tomogram(imgs[1], Molecules([[3,3,3]]))
for n in [2,3]:
    bb = BatchLoader(order=1)
    for i in range(n): bb.add_tomogram(imgs[i%2], Molecules([[4,4,4]]))
    try:
        out = bb.binning(2, compute=True); print(n, "images:", {k:type(v).__name__ for k,v in out.images.items()})
    except Exception as e: print(n, "EXC", type(e).__name__, str(e)[:100])

sec("C16 lowpass odd shapes")
for shape in [(6,6,6),(6,6,5),(5,5,5),(5,6,7),(7,6,5)]:
    img = rng.normal(size=shape).astype(np.float32)
    out = _utils.lowpass_filter(img, 0.3)
    from acryo.backend import Backend
    out2 = Backend().lowpass_filter(img, 0.3)
    print(shape, "->", out.shape, out2.shape)

sec("C03 batch interleaved")
tA = np.full((10,10,10), 1.0, np.float32); tB = np.full((10,10,10), 2.0, np.float32)
b = BatchLoader(order=0, output_shape=(3,3,3))
b.add_tomogram(tA, Molecules([[5,5,5],[4,4,4]], features={"k":[3,1]}), image_id=0)
b.add_tomogram(tB, Molecules([[5,5,5],[4,4,4]], features={"k":[2,0]}), image_id=1)
s = b.replace(molecules=b.molecules.sort("k"))
print("ids:", s.molecules.features["image-id"].to_list(), "loaded means:", s.asnumpy().mean(axis=(1,2,3)))
print("apply:", s.apply(np.mean)["mean"].to_list())

sec("C03 group filter then align (generator reuse)")
tomo2 = rng.normal(size=(20,20,40)).astype(np.float32)
mol = Molecules([[10,10,10],[10,10,30],[10,10,20]], features={"g":[0,1,0]})
ld = SubtomogramLoader(tomo2, mol, order=1, output_shape=(6,6,6))
g = ld.groupby("g").filter(pl.col("g")>=0)
out = g.align(blob_template(6), max_shifts=1.0)
print("groups after filter+align:", len(list(out)))
g2 = ld.groupby("g").head(5)
print("avg_split after head:", list(g2.average_split().keys()))

sec("C14 even template paste")
for n in [5,4]:
    t = rng.random((n,n,n)).astype(np.float32)
    c = 10.0 if n%2 else 10.5
    sim = TomogramSimulator(order=1); sim.add_molecules(Molecules([[c,c,c]]), t)
    tomo = sim.simulate((21,21,21))
    lo = int(c-(n-1)/2); blk = tomo[lo:lo+n,lo:lo+n,lo:lo+n]
    print(n, "exact paste:", np.allclose(blk,t,atol=1e-6), "sum ratio", tomo.sum()/t.sum())
    sub = SubtomogramLoader(tomo, Molecules([[c,c,c]]), order=1, output_shape=(n,n,n)).load(0)
    print("   loader returns template:", np.allclose(sub,t,atol=1e-5))

sec("C19 rsub, rtruediv, gaussian")
p = pipe.from_array(np.full((3,3,3),2.0,np.float32))
print("3 - p:", (3 - p)(1.0)[0,0,0], " 8 / p:", (8 / p)(1.0)[0,0,0])
g = pipe.from_gaussian((5,5,5), sigma=1.0)(1.0)
print("gaussian argmax", np.unravel_index(np.argmax(g), g.shape), "max", g.max(), g.shape)

sec("C11 mixed antiparallel batch")
from acryo.molecules import axes_to_rotator
z = np.array([[1,0,0],[ -1,0,0],[0,0,1.]]); y = np.array([[0,1,0],[0,-1,0],[0,1,0.]])
rot = axes_to_rotator(z,y)
print("z back:", np.round(rot.apply([1,0,0]),3).tolist(), "y back:", np.round(rot.apply([0,1,0]),3).tolist())
m = Molecules.from_axes(np.zeros((1,3)), z=[[-1,0,0]], y=[[0,-1,0]])
print("single antiparallel z,y:", np.round(m.z,3), np.round(m.y,3))
m = Molecules.from_axes(np.zeros((1,3)), z=[[0,0,1.]], y=[[0,-1,0]])
print("y antiparallel only z,y:", np.round(m.z,3), np.round(m.y,3))
