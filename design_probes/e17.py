import numpy as np, warnings, itertools
warnings.simplefilter("ignore")
from scipy.spatial.transform import Rotation as R
from acryo import Molecules
seqs = ["".join(p) for p in itertools.product("xyz", repeat=3) if p[0]!=p[1] and p[1]!=p[2]]
rots = R.from_rotvec([[0.4,-0.7,0.5],[-1.1,0.3,0.2],[0,0,np.pi/6],[2.0,-1.5,1.1],[np.pi,0,0],[0,np.pi,0],[0,0,np.pi],[0,0,0]])
bad=0; n=0
for seq in seqs + [s.upper() for s in seqs]:
    for deg in [False, True]:
        m = Molecules(np.zeros((len(rots),3)), rots)
        ang = m.euler_angle(seq, degrees=deg)
        for order in ["xyz"]:
            m2 = Molecules.from_euler(np.zeros((len(rots),3)), ang, seq=seq, degrees=deg, order=order)
            err = (m.rotator.inv()*m2.rotator).magnitude().max()
            n+=1
            if err>1e-6: bad+=1; print(seq,deg,order,err)
print("euler roundtrip", n, "bad", bad)
# order zyx meaning
m = Molecules.from_euler(np.zeros((1,3)), [[0.3,0.2,0.1]], seq="ZXZ", order="zyx")
print("zyx order equals scipy direct:", np.allclose(m.rotator.as_matrix(), R.from_euler("ZXZ",[[0.3,0.2,0.1]]).as_matrix()))
# axes
m = Molecules(np.zeros((len(rots),3)), rots)
Mx = m.matrix()
print("x axis = col2:", np.allclose(m.x, Mx[:,:,2]), " z=col0:", np.allclose(m.z, Mx[:,:,0]))
print("right-handed zyx: z == -cross(x,y):", np.allclose(m.z, -np.cross(m.x,m.y)))
# from_axes roundtrip all pairs generic
for kw in [dict(z=m.z,y=m.y), dict(z=m.z,x=m.x), dict(y=m.y,x=m.x)]:
    try:
        m2 = Molecules.from_axes(np.zeros((len(rots),3)), **kw)
        print(sorted(kw), "err", (m.rotator.inv()*m2.rotator).magnitude().round(6))
    except Exception as e: print(sorted(kw), "EXC", e)
# one at a time
for i in range(len(rots)):
    mi = m.subset(i)
    errs=[]
    for kw in [dict(z=mi.z,y=mi.y), dict(z=mi.z,x=mi.x), dict(y=mi.y,x=mi.x)]:
        m2 = Molecules.from_axes(np.zeros((1,3)), **kw); errs.append(round(float((mi.rotator.inv()*m2.rotator).magnitude()[0]),5))
    print(i, errs)
