import numpy as np, warnings
warnings.simplefilter("ignore")
import dask; dask.config.set(scheduler="synchronous")
from scipy.spatial.transform import Rotation as R
from acryo import SubtomogramLoader, Molecules, MockLoader
shape=(20,22,24)
zz,yy,xx = np.indices(shape).astype(np.float32)
rot = R.from_rotvec([[0.4,-0.7,0.5]])
pos = np.array([[9.3,10.1,12.6]])
for scale in [1.0,0.5]:
  for order in [0,1,3]:
    for cs in [False,True]:
        out_shape=(5,4,6)
        coords=[]
        for ramp in (zz,yy,xx):
            ld = SubtomogramLoader(ramp, Molecules(pos*scale, rot), order=order, scale=scale, output_shape=out_shape, corner_safe=cs)
            coords.append(ld.load(0))
        got = np.stack(coords,-1)
        k = np.stack(np.indices(out_shape),-1).astype(float) - (np.array(out_shape)-1)/2
        exp = pos[0] + rot.apply(k.reshape(-1,3)).reshape(k.shape)
        expi = pos[0] + rot.inv().apply(k.reshape(-1,3)).reshape(k.shape)
        if order==0: exp=np.round(exp); expi=np.round(expi)
        print(scale,order,cs,"max|got-R|", np.abs(got-exp).max().round(4), " max|got-Rinv|", np.abs(got-expi).max().round(3))
