import numpy as np, warnings, itertools, time
warnings.simplefilter("ignore")
from scipy.spatial.transform import Rotation as R
from acryo.tilt import single_axis, dual_axis
from acryo import _utils
from acryo.backend import Backend

def ref_mask(shape, rot, tr, axis="y", nyq_sign=-1):
    # FFT-ordered physical freqs
    fs = []
    for n in shape:
        k = np.fft.fftfreq(n)*n   # integers, nyquist negative
        fs.append(k/n)
    fz,fy,fx = np.meshgrid(*fs, indexing="ij")
    f = np.stack([fz,fy,fx],-1)            # local frame
    ft = rot.apply(f.reshape(-1,3)).reshape(f.shape)  # tomogram frame
    t0,t1 = np.tan(np.deg2rad(tr[0])), np.tan(np.deg2rad(tr[1]))
    u = ft[...,0]; v = ft[...,2] if axis=="y" else ft[...,1]
    # kept iff (u - t0 v)(u - t1 v) <= 0   (for |tilt|<90)
    val = (u - t0*v)*(u - t1*v)
    return val, val <= 0

for shape in [(6,6,6),(4,6,8),(5,5,5),(8,4,6)]:
    for rot in [R.identity(), R.from_rotvec([0.3,-0.5,0.2])]:
        for tr,ax in [((-60,60),"y"),((-40,55),"y"),((-50,30),"x")]:
            m = single_axis(tr, ax).create_mask(rot, shape)
            val, ref = ref_mask(shape, rot, tr, ax)
            care = np.abs(val) > 1e-6
            bad = (m != ref) & care
            m2 = _utils.missing_wedge_mask(rot, tr, shape) if ax=="y" else None
            m3 = Backend().missing_wedge_mask(rot, tr, shape) if ax=="y" else None
            agree = (m2 is None) or (np.array_equal(m,m2) and np.array_equal(m,m3))
            print(shape, "gen" if rot.magnitude()>0 else "id ", tr, ax, "mismatch bins:", int(bad.sum()), "/", m.size, "entrypoints agree:", agree)
