import numpy as np, warnings
warnings.simplefilter("ignore")
import dask; dask.config.set(scheduler="synchronous")
from scipy.spatial.transform import Rotation as R
from acryo import SubtomogramLoader, Molecules
from acryo import _utils
import dask.array as da
shape=(20,22,24)
zz,yy,xx = np.indices(shape).astype(np.float32)
rot = R.from_rotvec([[0.4,-0.7,0.5]])
pos = np.array([[9.3,10.1,12.6]])
out_shape=(5,4,6)
for cs in [True]:
    got=[]
    for ramp in (zz,yy,xx):
        ld = SubtomogramLoader(ramp, Molecules(pos, rot), order=0, output_shape=out_shape, corner_safe=cs)
        got.append(ld.load(0))
    got=np.stack(got,-1)
    k = np.stack(np.indices(out_shape),-1).astype(float) - (np.array(out_shape)-1)/2
    exp = pos[0] + rot.apply(k.reshape(-1,3)).reshape(k.shape)
    err = np.abs(got-np.floor(exp+0.5)).max(-1)
    print("n bad", (err>0).sum(), "of", err.size)
    idx = np.argwhere(err>0)[:5]
    for i in idx: print(i, "exp", exp[tuple(i)].round(3), "got", got[tuple(i)])
    sub, mtx = _utils.prepare_affine_cornersafe(da.from_array(zz), pos[0], out_shape, rot[0], order=0)
    print(sub.shape, mtx)
