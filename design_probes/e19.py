import numpy as np, dask, dask.array as da, time, warnings
warnings.simplefilter("ignore")
from dask._task_spec import convert_legacy_graph
from acryo import SubtomogramLoader, Molecules, BatchLoader
from acryo.alignment import ZNCCAlignment
import polars as pl

class Sched:
    def __init__(self, chooser): self.chooser=chooser; self.graphs=[]
    def __call__(self, dsk, keys, **kw):
        dsk = dsk if isinstance(dsk, dict) else dsk.__dask_graph__()
        dsk = convert_legacy_graph(dsk)
        deps = {k:set(v.dependencies) for k,v in dsk.items()}
        names = {k:i for i,k in enumerate(dsk)}
        done={}; remaining=set(dsk); trace=[]; widths=[]
        while remaining:
            ready = sorted((k for k in remaining if deps[k] <= done.keys()), key=names.get)
            widths.append(len(ready))
            k = self.chooser(ready); trace.append(names[k])
            done[k] = dsk[k](done); remaining.discard(k)
        self.graphs.append((len(dsk), widths))
        def pack(ks): return [pack(x) for x in ks] if isinstance(ks, list) else done[ks]
        return pack(keys)

rng=np.random.default_rng(0)
tomo = rng.normal(size=(14,14,14)).astype(np.float32)
mol = Molecules([[5,5,5],[7,7,7],[6,8,5],[8,6,7]], features={"g":[0,1,0,1]})
ld = SubtomogramLoader(tomo, mol, order=1, output_shape=(4,4,4))
tmpl = rng.normal(size=(4,4,4)).astype(np.float32)
ops = {
 "asnumpy": lambda l: l.asnumpy(),
 "average": lambda l: l.average(),
 "average_split": lambda l: l.average_split(n_set=1),
 "align": lambda l: l.align(tmpl, max_shifts=1.0).molecules.pos,
 "align rot": lambda l: l.align(tmpl, max_shifts=1.0, rotations=((0,0),(0,0),(20,20))).molecules.pos,
 "score": lambda l: l.score([tmpl]),
 "landscape": lambda l: l.construct_landscape(tmpl, max_shifts=1.0).compute(),
 "apply": lambda l: l.apply(np.mean),
 "classify": lambda l: l.classify(tmpl, n_components=2).loader.molecules.features,
 "group avg": lambda l: l.groupby("g").average(),
}
for name, fn in ops.items():
    s = Sched(lambda ready: ready[0])
    t0=time.time()
    with dask.config.set(scheduler=s):
        try: fn(ld)
        except Exception as e: print(name, "EXC", type(e).__name__, str(e)[:80]); continue
    print(f"{name:14s} {time.time()-t0:.3f}s graphs(ntasks,maxwidth):", [(n, max(w)) for n,w in s.graphs])
# dask chunked tomogram
ld2 = SubtomogramLoader(da.from_array(tomo, chunks=7), mol, order=1, output_shape=(4,4,4))
s = Sched(lambda ready: ready[0])
with dask.config.set(scheduler=s): ld2.average()
print("chunked average graphs:", [(n, max(w)) for n,w in s.graphs])
