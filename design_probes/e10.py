import sys, threading, numpy as np, warnings, time
warnings.simplefilter("ignore")
from acryo.alignment import ZNCCAlignment
sys.setswitchinterval(1e-6)
rng = np.random.default_rng(0)
t = rng.normal(size=(4,4,4)).astype(np.float32)
imgs = [rng.normal(size=(4,4,4)).astype(np.float32) for _ in range(8)]
q = np.array([0,0,0,1.]); p = np.zeros(3)
errs=0; runs=0
t0=time.time()
while time.time()-t0 < 20:
    model = ZNCCAlignment(t)
    res=[]
    def body(i):
        try:
            for _ in range(20): model.score(imgs[i], q, p)
        except Exception as e: res.append(repr(e))
    ths=[threading.Thread(target=body,args=(i,)) for i in range(8)]
    [x.start() for x in ths]; [x.join() for x in ths]
    runs+=1; errs+=bool(res)
    if res and errs==1: print(res[0])
print("runs",runs,"with errors",errs)
