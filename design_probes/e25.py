"""Oracle self-consistency: does the reference agree with a *corrected* implementation
(built here, outside the repository) on the classes where the shipped code fails?"""
import numpy as np, warnings, itertools
warnings.simplefilter("ignore")
from scipy.spatial.transform import Rotation as R

# ---- C08: corrected mask vs angular predicate
def corrected_mask(rot, tr, shape, axis="y"):
    t0, t1 = np.deg2rad(tr)
    def n(t):
        a = np.pi - t
        return np.array([np.cos(a), 0.0, np.sin(a)], np.float32) if axis=="y" else np.array([np.cos(a), np.sin(a), 0.0], np.float32)
    sv = np.array(shape, np.float32)
    n0 = rot.inv().apply(n(t0)) / sv; n1 = rot.inv().apply(n(t1)) / sv
    inds = np.indices(shape, dtype=np.float32)
    for ind, s in zip(inds, shape): ind -= s // 2
    vec = np.fft.ifftshift(np.stack(list(inds), -1), axes=(0,1,2))
    return (vec.dot(n0) * vec.dot(n1)) <= 0
def angular_ref(shape, rot, tr, axis="y"):
    fs = np.meshgrid(*[np.fft.fftfreq(n) for n in shape], indexing="ij")
    f = np.stack(fs, -1); ft = rot.apply(f.reshape(-1,3)).reshape(f.shape)
    u = ft[...,0]; v = ft[...,2] if axis=="y" else ft[...,1]
    phi = np.arctan2(u, v)                       # (-pi, pi]
    phi = np.where(phi > np.pi/2, phi - np.pi, phi); phi = np.where(phi <= -np.pi/2, phi + np.pi, phi)  # fold to (-pi/2, pi/2]
    lo, hi = np.deg2rad(tr)
    zero = (np.abs(f).sum(-1) == 0)
    keep = ((phi >= lo) & (phi <= hi)) | zero
    r = np.hypot(u, v)
    dc = (np.minimum(np.abs(phi-lo), np.abs(phi-hi)) < 1e-5) | (np.abs(np.abs(phi)-np.pi/2) < 1e-5) | ((r < 1e-9) & ~zero)
    return keep, dc
rots = [R.identity(), R.from_rotvec([0.4,-0.7,0.5]), R.from_rotvec([-1.1,0.3,0.2]), R.from_euler("z",90,degrees=True), R.from_rotvec([np.pi,0,0])]
nbad=0; ncase=0; ndc=0
for shape in itertools.product(range(1,7), repeat=3):
    for rot in rots:
        for tr,ax in [((-60,60),"y"),((-40,55),"y"),((-50,30),"x"),((0,45),"y"),((-90,90),"y"),((-90,10),"x"),((-0.5,0.5),"y")]:
            m = corrected_mask(rot, tr, shape, ax); keep, dc = angular_ref(shape, rot, tr, ax)
            bad = (m != keep) & ~dc
            ncase+=1; nbad += int(bad.sum()); ndc += int(dc.sum())
print("C08 corrected-vs-reference: cases", ncase, "mismatching bins", nbad, "don't-care bins", ndc)

# ---- C16: corrected low-pass vs matrix reference
def corrected_lowpass(img, cutoff, order=2):
    if cutoff >= 0.5*np.sqrt(img.ndim) or cutoff <= 0: return img
    rs=[]
    for d in img.shape:
        ax = np.arange(-(d-1)//2, (d-1)//2+1, dtype=np.float32)/(d*cutoff); rs.append(np.fft.ifftshift(ax**2))
    rs[-1] = rs[-1][: img.shape[-1]//2+1]
    q2 = sum(np.meshgrid(*rs, indexing="ij", sparse=True))
    return np.fft.irfftn(1/(1+q2**order)*np.fft.rfftn(img), s=img.shape)
worst=0
for shape in itertools.product(range(1,6), repeat=3):
    for cutoff in [0.05,0.2,0.5,0.86]:
        for order in [1,2,3]:
            fs = np.meshgrid(*[np.fft.fftfreq(n) for n in shape], indexing="ij")
            gain = 1/(1+(np.sqrt(sum(f**2 for f in fs))/cutoff)**(2*order))
            N = int(np.prod(shape))
            for i in range(N):
                e = np.zeros(N, np.float32); e[i]=1; e=e.reshape(shape)
                ref = np.fft.ifftn(gain*np.fft.fftn(e)).real
                worst = max(worst, np.abs(corrected_lowpass(e,cutoff,order)-ref).max())
print("C16 corrected-vs-reference worst abs err", worst)
