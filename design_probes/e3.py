import numpy as np, warnings, time, traceback
from scipy.spatial.transform import Rotation as R
import dask, dask.array as da
dask.config.set(scheduler="synchronous")
from acryo import Molecules, SubtomogramLoader, MockLoader, BatchLoader, TomogramSimulator
from acryo.alignment import ZNCCAlignment, PCCAlignment, NCCAlignment, FSCAlignment
from acryo import _utils, pipe
warnings.simplefilter("ignore")
rng = np.random.default_rng(0)
def sec(t): print("\n==", t)

sec("C02 touching window")
tomo = rng.normal(size=(12,12,12)).astype(np.float32)
for z in [-3.5, -4.0, -4.5, -5.0, 15.0, 15.5,16.0, 16.5]:
    try:
        ld = SubtomogramLoader(tomo, Molecules([[z,6,6]]), order=1, output_shape=(5,5,5))
        a = ld.load(0)
        print(z, "nan" if np.isnan(a).any() else "finite")
    except Exception as e:
        print(z, type(e).__name__)

sec("C05 off-grid max_shifts")
tmp = rng.normal(size=(8,8,8)).astype(np.float32)
for M in [ZNCCAlignment, NCCAlignment, PCCAlignment, FSCAlignment]:
    worst = 0
    for ms in [0.33, 0.12, 0.58, 1.37, 0.0, 0.04]:
        model = M(tmp)
        for i in range(20):
            img = rng.normal(size=(8,8,8)).astype(np.float32)
            try:
                r = model.align(img, (ms,ms,ms))
                ex = np.max(np.abs(r.shift)) - ms
                worst = max(worst, ex)
                if not np.isfinite(r.score): print(M.__name__, ms, "nonfinite score")
            except Exception as e:
                print(M.__name__, ms, "EXC", type(e).__name__, e); break
    print(M.__name__, "worst excess", worst)

sec("C05 constant subvolume")
for M in [ZNCCAlignment, NCCAlignment, PCCAlignment, FSCAlignment]:
    try:
        r = M(tmp).align(np.ones((8,8,8),np.float32), (1,1,1)); print(M.__name__, r.shift, r.score)
    except Exception as e: print(M.__name__, "EXC", type(e).__name__, e)

sec("C05 scalar max_shifts in align_multi_templates / group align")
tomo2 = rng.normal(size=(20,20,40)).astype(np.float32)
mol = Molecules([[10,10,10],[10,10,30]], features={"g":[0,1]})
ld = SubtomogramLoader(tomo2, mol, order=1)
t2 = [rng.normal(size=(6,6,6)).astype(np.float32) for _ in range(2)]
for name, fn in [("align_multi default", lambda: ld.align_multi_templates(t2)),
                 ("align_multi scalar", lambda: ld.align_multi_templates(t2, max_shifts=1.0)),
                 ("align stack scalar", lambda: ld.align(np.stack(t2), max_shifts=1.0)),
                 ("group align default", lambda: list(ld.groupby("g").align(t2[0]))),
                 ("group align_multi default", lambda: list(ld.groupby("g").align_multi_templates(t2))),
                 ]:
    try: fn(); print(name, "ok")
    except Exception as e: print(name, "EXC", type(e).__name__, str(e)[:80])

sec("C10 landscape declared shape")
for ms, up in [(1.0,1),(1.5,1),(1.0,2),(1.5,3)]:
    arr = ld.construct_landscape(t2[0], max_shifts=ms, upsample=up)
    print(ms, up, "declared", arr.shape, "actual", arr.compute().shape)
