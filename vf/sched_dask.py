"""E3 -- dask schedule explorer (DESIGN.md section 2).

A callable installed with ``dask.config.set(scheduler=...)`` that executes the graph one
task at a time and asks the exploration which *ready* task runs next.  Tasks are named
canonically (function name + rank in dask's static order) because dask keys contain
uuids.  Plumbing tasks (aliases, data nodes, dask's own identity / finalize helpers) are
pure and commute with everything: they are run as soon as they are ready and never create
a choice point; the remaining tasks (everything that executes library code) are permuted.

Exploration is stateless depth-first search over choice prefixes, either complete (all
linear extensions of the impure sub-order) or deviation-bounded (at most d departures
from the default choice, the default being dask's own static priority).
"""
from __future__ import annotations

import re


class Divergence(RuntimeError):
    """replaying a recorded prefix met a different set of ready tasks: nondeterminism we do not own"""


PURE_FUNC_NAMES = {"_identity", "finalize", "identity"}


def _func_name(node):
    fn = getattr(node, "func", None)
    if fn is None:
        return None
    name = getattr(fn, "__qualname__", None) or getattr(fn, "__name__", None) or type(fn).__name__
    return name


def _key_label(key):
    k = key[0] if isinstance(key, tuple) else key
    k = str(k)
    k = re.sub(r"-[0-9a-f]{32}$", "", k)
    k = re.sub(r"-[0-9a-f]{8}-[0-9a-f]{4}-[0-9a-f]{4}-[0-9a-f]{4}-[0-9a-f]{12}$", "", k)
    k = re.sub(r"[0-9a-f]{32}", "", k)
    return k[:40]


def _leaves(obj, h, depth=0):
    """feed the literal content of a graph node into hash h, ignoring keys / references (they contain uuids)"""
    import numpy as np
    from dask._task_spec import Alias, DataNode, Task, TaskRef

    if depth > 12:
        return
    if isinstance(obj, Task):
        fn = obj.func
        h.update((getattr(fn, "__qualname__", None) or getattr(fn, "__name__", None) or type(fn).__name__).encode())
        owner = getattr(fn, "__self__", None)
        if owner is not None and not isinstance(owner, type) and hasattr(owner, "__dict__"):
            # a bound method: two different objects (e.g. two alignment models) must not get the same label
            for name in sorted(vars(owner)):
                v = vars(owner)[name]
                if isinstance(v, (np.ndarray, int, float, str, tuple)):
                    h.update(name.encode())
                    _leaves(v, h, depth + 1)
        for a in obj.args:
            _leaves(a, h, depth + 1)
        for k in sorted(obj.kwargs):
            h.update(str(k).encode())
            _leaves(obj.kwargs[k], h, depth + 1)
    elif isinstance(obj, DataNode):
        _leaves(obj.value, h, depth + 1)
    elif isinstance(obj, (Alias, TaskRef)):
        h.update(b"<ref>")
    elif hasattr(obj, "args") and type(obj).__module__.startswith("dask"):
        for a in obj.args:
            _leaves(a, h, depth + 1)
    elif isinstance(obj, dict):
        for v in obj.values():
            _leaves(v, h, depth + 1)
    elif isinstance(obj, (list, tuple, set, frozenset)):
        for v in obj:
            _leaves(v, h, depth + 1)
    elif isinstance(obj, np.ndarray):
        h.update(str(obj.dtype).encode() + str(obj.shape).encode())
        if obj.size <= 200000:
            h.update(np.ascontiguousarray(obj).tobytes())
    elif isinstance(obj, (slice, int, float, bool, complex, type(None), np.generic)):
        h.update(repr(obj).encode())
    elif isinstance(obj, str):
        h.update(re.sub(r"[0-9a-f-]{4,}", "", obj).encode())
    elif callable(obj):
        h.update((getattr(obj, "__qualname__", None) or type(obj).__name__).encode())
    else:
        h.update(type(obj).__name__.encode())


def canonical_labels(d, prio):
    """key -> label that depends only on the graph's content (functions, literal arguments, structure), not on uuids"""
    import hashlib

    labels = {}

    def lab(k, stack=()):
        if k in labels:
            return labels[k]
        node = d[k]
        h = hashlib.sha1()
        _leaves(node, h)
        for dl in sorted(lab(x, stack + (k,)) for x in node.dependencies if x in d and x not in stack):
            h.update(dl.encode())
        fn = _func_name(node) or type(node).__name__
        if fn == "_execute_subgraph":
            fn = "subgraph:" + _key_label(k)
        labels[k] = f"{fn.split('.')[-1]}:{h.hexdigest()[:8]}"
        return labels[k]

    for k in d:
        lab(k)
    # refine with the consumers of each task (Weisfeiler-Lehman style, both directions): two tasks with the same
    # content but different consumers are not interchangeable for the schedule
    dependents = {k: [] for k in d}
    for k, node in d.items():
        for x in node.dependencies:
            if x in dependents:
                dependents[x].append(k)
    for _ in range(3):
        new = {}
        for k in d:
            h = hashlib.sha1(labels[k].encode())
            for dl in sorted(labels[x] for x in dependents[k]):
                h.update(b">" + dl.encode())
            for dl in sorted(labels[x] for x in d[k].dependencies if x in d):
                h.update(b"<" + dl.encode())
            new[k] = labels[k].split(":")[0] + ":" + h.hexdigest()[:8]
        labels = new
    # tasks that are still indistinguishable are interchangeable (automorphic): number them in dask's order
    seen = {}
    out = {}
    for k in sorted(d, key=lambda k: prio[k]):
        i = seen.get(labels[k], 0)
        seen[labels[k]] = i + 1
        out[k] = labels[k] + (f"#{i}" if i else "")
    return out


class ControlledScheduler:
    """One execution.  `prefix` = choices (indices into the canonical ready list) at successive choice points;
    beyond the prefix the default (index 0 = dask's priority) is taken."""

    def __init__(self, prefix=(), reduce_pure=True):
        self.prefix = list(prefix)
        self.reduce_pure = reduce_pure
        self.points = []  # per choice point: canonical names of the ready tasks, sorted by name
        self.choices = []  # explicit index taken at each choice point
        self.defaults = []  # index dask's own priority would have taken
        self.trace = []  # canonical names in execution order
        self.n_graphs = 0
        self.n_tasks = 0

    def __call__(self, dsk, keys, **kwargs):
        from dask._task_spec import Alias, DataNode, convert_legacy_graph
        from dask.order import order

        d = dsk if isinstance(dsk, dict) else dict(dsk.__dask_graph__())
        d = convert_legacy_graph(d)
        prio = order(d)
        g = self.n_graphs
        self.n_graphs += 1
        names = {k: f"g{g}:{v}" for k, v in canonical_labels(d, prio).items()}

        def pure(k):
            node = d[k]
            if isinstance(node, (Alias, DataNode)):
                return True
            fn = _func_name(node)
            # an identity node without dependencies carries an embedded sub-graph (e.g. the whole loading of one
            # sub-volume): that is library code, not plumbing
            return fn is not None and fn.split(".")[-1] in PURE_FUNC_NAMES and len(node.dependencies) > 0

        deps = {k: set(v.dependencies) & set(d) for k, v in d.items()}
        done = {}
        remaining = set(d)
        while remaining:
            ready = sorted((k for k in remaining if deps[k] <= done.keys()), key=lambda k: prio[k])
            if not ready:
                raise RuntimeError("no ready task: cyclic graph?")
            if self.reduce_pure:
                pr = [k for k in ready if pure(k)]
                if pr:
                    k = pr[0]
                    done[k] = d[k](done)
                    remaining.discard(k)
                    self.n_tasks += 1
                    continue
            cand = sorted(ready, key=lambda k: names[k])
            if len(cand) == 1:
                k = cand[0]
            else:
                i = len(self.points)
                labels = [names[x] for x in cand]
                default = min(range(len(cand)), key=lambda j: prio[cand[j]])
                if i < len(self.prefix):
                    c = self.prefix[i]
                    if c >= len(cand):
                        raise Divergence(f"choice {c} at point {i} but only {len(cand)} ready tasks: {labels}")
                else:
                    c = default
                self.points.append(labels)
                self.choices.append(c)
                self.defaults.append(default)
                k = cand[c]
            self.trace.append(names[k])
            done[k] = d[k](done)
            remaining.discard(k)
            self.n_tasks += 1

        def pack(ks):
            if isinstance(ks, list):
                return [pack(x) for x in ks]
            try:
                return done[ks]
            except (KeyError, TypeError):
                if isinstance(ks, tuple):
                    return tuple(pack(x) for x in ks)
                raise

        return pack(keys)


def run_with(prefix, body, reduce_pure=True):
    """Execute body() under a controlled scheduler following `prefix`. Returns (scheduler, result-or-exception)."""
    import uuid

    import dask

    s = ControlledScheduler(prefix, reduce_pure=reduce_pure)
    # dask names delayed objects with uuid4(); graph optimisation and static ordering break ties on those names, so
    # the graph itself would differ from run to run.  Own that source of nondeterminism: a counter instead of entropy.
    counter = [0]
    real_uuid4 = uuid.uuid4

    def fake_uuid4():
        counter[0] += 1
        return uuid.UUID(int=(0x5EED << 96) + counter[0])

    uuid.uuid4 = fake_uuid4
    try:
        with dask.config.set(scheduler=s):
            try:
                res = ("ok", body())
            except Divergence:
                raise
            except Exception as e:  # noqa
                import traceback

                res = ("raised", e, traceback.format_exc())
    finally:
        uuid.uuid4 = real_uuid4
    return s, res


def explore(body, bound=None, max_executions=5000, reduce_pure=True):
    """Stateless DFS.  bound=None: all orders; bound=d: at most d deviations from the default choice.
    Yields (choices, scheduler, result) for every execution.  Returns when the space is exhausted or the cap is hit
    (the caller reads explore.capped)."""
    stack = [[]]
    n = 0
    explore.capped = False
    while stack:
        prefix = stack.pop()
        s, res = run_with(prefix, body, reduce_pure=reduce_pure)
        n += 1
        yield list(s.choices), s, res
        if n >= max_executions:
            explore.capped = bool(stack)
            return
        used = sum(1 for c, d0 in zip(s.choices[: len(prefix)], s.defaults[: len(prefix)]) if c != d0)
        for i in range(len(prefix), len(s.points)):
            for alt in range(len(s.points[i])):
                if alt == s.choices[i]:
                    continue
                if bound is not None and used + 1 > bound:
                    continue
                stack.append(s.choices[:i] + [alt])
            # the choice taken at i beyond the prefix is the default: no deviation consumed
