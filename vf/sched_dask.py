"""E3 -- dask schedule explorer (DESIGN.md section 2).

A callable installed with ``dask.config.set(scheduler=...)`` that executes the graph one
task at a time and asks the exploration which *ready* task runs next.  Tasks are named
canonically (function name + rank in dask's static order) because dask keys contain
uuids.  Plumbing tasks (aliases, data nodes, dask's own identity / finalize helpers) are
pure and commute with everything: they are run as soon as they are ready and never create
a choice point; the remaining tasks (everything that executes library code) are permuted.

Exploration is stateless depth-first search over choice prefixes, either complete (all
linear extensions of the impure sub-order) or deviation-bounded (at most d departures
from the default choice, the default being dask's own static priority).
"""
from __future__ import annotations

import re


class Divergence(RuntimeError):
    """replaying a recorded prefix met a different set of ready tasks: nondeterminism we do not own"""


PURE_FUNC_NAMES = {"_identity", "finalize", "identity"}


def _func_name(node):
    fn = getattr(node, "func", None)
    if fn is None:
        return None
    name = getattr(fn, "__qualname__", None) or getattr(fn, "__name__", None) or type(fn).__name__
    return name


def _key_label(key):
    k = key[0] if isinstance(key, tuple) else key
    k = str(k)
    k = re.sub(r"-[0-9a-f]{32}$", "", k)
    k = re.sub(r"-[0-9a-f]{8}-[0-9a-f]{4}-[0-9a-f]{4}-[0-9a-f]{4}-[0-9a-f]{12}$", "", k)
    k = re.sub(r"[0-9a-f]{32}", "", k)
    return k[:40]


class ControlledScheduler:
    """One execution.  `prefix` = choices (indices into the canonical ready list) at successive choice points;
    beyond the prefix the default (index 0 = dask's priority) is taken."""

    def __init__(self, prefix=(), reduce_pure=True):
        self.prefix = list(prefix)
        self.reduce_pure = reduce_pure
        self.points = []  # per choice point: list of canonical names of the ready impure tasks (default first)
        self.choices = []
        self.trace = []  # canonical names in execution order
        self.n_graphs = 0
        self.n_tasks = 0

    def __call__(self, dsk, keys, **kwargs):
        from dask._task_spec import Alias, DataNode, convert_legacy_graph
        from dask.order import order

        d = dsk if isinstance(dsk, dict) else dict(dsk.__dask_graph__())
        d = convert_legacy_graph(d)
        prio = order(d)
        g = self.n_graphs
        self.n_graphs += 1
        # canonical names: label + rank among same-label tasks in dask's static order
        counts = {}
        names = {}
        for k in sorted(d, key=lambda k: prio[k]):
            node = d[k]
            lab = _func_name(node) or type(node).__name__
            if lab == "_execute_subgraph":
                lab = "subgraph:" + _key_label(k)
            i = counts.get(lab, 0)
            counts[lab] = i + 1
            names[k] = f"g{g}:{lab}#{i}"

        def pure(k):
            node = d[k]
            if isinstance(node, (Alias, DataNode)):
                return True
            fn = _func_name(node)
            # an identity node without dependencies carries an embedded sub-graph (e.g. the whole loading of one
            # sub-volume): that is library code, not plumbing
            return fn is not None and fn.split(".")[-1] in PURE_FUNC_NAMES and len(node.dependencies) > 0

        deps = {k: set(v.dependencies) & set(d) for k, v in d.items()}
        done = {}
        remaining = set(d)
        while remaining:
            ready = sorted((k for k in remaining if deps[k] <= done.keys()), key=lambda k: prio[k])
            if not ready:
                raise RuntimeError("no ready task: cyclic graph?")
            if self.reduce_pure:
                pr = [k for k in ready if pure(k)]
                if pr:
                    k = pr[0]
                    done[k] = d[k](done)
                    remaining.discard(k)
                    self.n_tasks += 1
                    continue
            cand = ready
            if len(cand) == 1:
                k = cand[0]
            else:
                i = len(self.points)
                labels = [names[x] for x in cand]
                if i < len(self.prefix):
                    c = self.prefix[i]
                    if c >= len(cand):
                        raise Divergence(f"choice {c} at point {i} but only {len(cand)} ready tasks: {labels}")
                else:
                    c = 0
                self.points.append(labels)
                self.choices.append(c)
                k = cand[c]
            self.trace.append(names[k])
            done[k] = d[k](done)
            remaining.discard(k)
            self.n_tasks += 1

        def pack(ks):
            if isinstance(ks, list):
                return [pack(x) for x in ks]
            try:
                return done[ks]
            except (KeyError, TypeError):
                if isinstance(ks, tuple):
                    return tuple(pack(x) for x in ks)
                raise

        return pack(keys)


def run_with(prefix, body, reduce_pure=True):
    """Execute body() under a controlled scheduler following `prefix`. Returns (scheduler, result-or-exception)."""
    import dask

    s = ControlledScheduler(prefix, reduce_pure=reduce_pure)
    with dask.config.set(scheduler=s):
        try:
            res = ("ok", body())
        except Divergence:
            raise
        except Exception as e:  # noqa
            import traceback

            res = ("raised", e, traceback.format_exc())
    return s, res


def explore(body, bound=None, max_executions=5000, reduce_pure=True):
    """Stateless DFS.  bound=None: all orders; bound=d: at most d deviations from the default choice.
    Yields (choices, scheduler, result) for every execution.  Returns when the space is exhausted or the cap is hit
    (the caller reads explore.capped)."""
    stack = [[]]
    n = 0
    explore.capped = False
    while stack:
        prefix = stack.pop()
        s, res = run_with(prefix, body, reduce_pure=reduce_pure)
        n += 1
        yield list(s.choices), s, res
        if n >= max_executions:
            explore.capped = bool(stack)
            return
        used = sum(1 for c in s.choices[: len(prefix)] if c != 0)
        for i in range(len(prefix), len(s.points)):
            for alt in range(1, len(s.points[i])):
                if bound is not None and used + 1 > bound:
                    continue
                stack.append(s.choices[:i] + [alt])
            # choices[i] beyond the prefix is always 0 (default): no deviation consumed
