"""Missing-wedge predicate in angular form (deliberately not the implementation's
two dot products).  See DESIGN.md section 2, 'Reference models'."""
from __future__ import annotations

import itertools

import numpy as np

BAND = 1e-5  # rad; bins this close to a limit plane are don't-care


def _classify(fw, tilt_range, axis):
    """fw (..., 3) world-frame frequency (z, y, x).  Returns keep_sure, drop_sure."""
    tmin, tmax = np.deg2rad(tilt_range[0]), np.deg2rad(tilt_range[1])
    u = fw[..., 0]
    v = fw[..., 2] if axis == "y" else fw[..., 1]
    r = np.hypot(u, v)
    scale = np.sqrt((fw**2).sum(-1)) + 1e-300
    on_axis = r <= 1e-9 * scale + 1e-14  # frequency along the tilt axis (or zero): in every central slice
    phi = np.arctan2(u, v)
    keep_sure = np.zeros(phi.shape, dtype=bool)
    drop_sure = np.ones(phi.shape, dtype=bool)
    for k in (-2, -1, 0, 1, 2):
        p = phi + k * np.pi
        keep_sure |= (p >= tmin + BAND) & (p <= tmax - BAND)
        drop_sure &= (p < tmin - BAND) | (p > tmax + BAND)
    # ill-conditioned direction (tiny in-plane component relative to |f|)
    illcond = (r < 1e-6 * scale) & ~on_axis
    # a non-zero frequency on the tilt axis lies on both limit planes: don't-care; zero: kept
    zero = (np.abs(fw).sum(-1) == 0)
    keep_sure = (keep_sure & ~illcond & ~on_axis) | zero
    drop_sure = drop_sure & ~illcond & ~on_axis
    return keep_sure, drop_sure


def expected(shape, rotmat, tilt_range, axis="y"):
    """Returns (keep_sure, drop_sure, nyquist_free): boolean arrays of `shape`.
    A bin that is in neither *_sure set is don't-care (on a limit plane within BAND,
    or a Nyquist bin whose two sign readings disagree)."""
    shape = tuple(shape)
    rotmat = np.asarray(rotmat, dtype=np.float64)
    freqs = [np.fft.fftfreq(n) for n in shape]
    nyq_axes = [np.isclose(np.abs(f), 0.5) for f in freqs]
    grid = np.stack(np.meshgrid(*freqs, indexing="ij"), -1)
    is_nyq = np.stack(np.meshgrid(*nyq_axes, indexing="ij"), -1)
    keep_all = np.ones(shape, dtype=bool)
    drop_all = np.ones(shape, dtype=bool)
    even_axes = [ax for ax in range(3) if shape[ax] % 2 == 0 and shape[ax] > 0]
    for flips in itertools.product((False, True), repeat=len(even_axes)):
        f = grid.copy()
        for ax, fl in zip(even_axes, flips):
            if fl:
                f[..., ax] = np.where(is_nyq[..., ax], -f[..., ax], f[..., ax])
        fw = f @ rotmat.T
        k, d = _classify(fw, tilt_range, axis)
        keep_all &= k
        drop_all &= d
    return keep_all, drop_all, ~is_nyq.any(-1)


def negate_index(shape):
    """index arrays of the bin holding -k for every bin k"""
    return np.ix_(*[(-np.arange(n)) % n for n in shape])
