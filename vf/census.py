"""Shared-state census of the tree under test (DESIGN.md section 2, E4).

An AST pass over every module of the acryo package lists
 (a) functions wrapped by functools.lru_cache / cache,
 (b) module-level names that are rebound or mutated at run time (``global`` statements, subscript / attribute
     assignment, mutating method calls on a module-level name), and class attributes rebound through the class
     (``Backend._default = name``),
 (c) instance attributes assigned outside ``__init__`` and container attributes mutated in methods.
The *closure* is every function that reads or writes one of those sites, plus the functions of the same module that
call a closure function of the same class.  The thread explorer places scheduling points only inside closure functions.
The census is recomputed on every run: a scratch buffer hoisted to module scope, or a new cached attribute on a shared
object, enters the closure without editing any check.
"""
from __future__ import annotations

import ast
import os
from pathlib import Path

MUTATORS = {"append", "extend", "insert", "update", "setdefault", "pop", "popitem", "clear", "remove", "add", "discard", "sort", "reverse", "fill", "resize", "put", "itemset"}
SKIP_DIRS = {"testing", "__pycache__"}


def _attr_chain(node):
    """self.x.y -> ('self', 'x', 'y') ; name -> ('name',)"""
    parts = []
    while isinstance(node, ast.Attribute):
        parts.append(node.attr)
        node = node.value
    if isinstance(node, ast.Name):
        parts.append(node.id)
        return tuple(reversed(parts))
    return None


class _FuncInfo:
    def __init__(self, module, cls, name, node):
        self.module, self.cls, self.name, self.node = module, cls, name, node
        self.writes_self = set()
        self.reads_self = set()
        self.mutates_self = set()
        self.global_names = set()
        self.module_name_writes = set()
        self.names_read = set()
        self.class_attr_writes = set()
        self.calls = set()
        self.attr_pairs_read = set()
        self.cached = False

    @property
    def qual(self):
        return f"{self.module}:{self.cls + '.' if self.cls else ''}{self.name}"


def _analyse_function(fi: _FuncInfo, module_level_names):
    for dec in getattr(fi.node, "decorator_list", []):
        d = dec.func if isinstance(dec, ast.Call) else dec
        ch = _attr_chain(d)
        if ch and ch[-1] in ("lru_cache", "cache", "cached_property"):
            fi.cached = True
    for n in ast.walk(fi.node):
        if isinstance(n, ast.Global):
            fi.global_names.update(n.names)
        targets = []
        if isinstance(n, ast.Assign):
            targets = n.targets
        elif isinstance(n, (ast.AugAssign, ast.AnnAssign)):
            targets = [n.target]
        elif isinstance(n, ast.NamedExpr):
            targets = [n.target]
        for t in targets:
            for tt in ast.walk(t) if isinstance(t, (ast.Tuple, ast.List)) else [t]:
                base = tt
                subscripted = False
                while isinstance(base, ast.Subscript):
                    base = base.value
                    subscripted = True
                ch = _attr_chain(base)
                if not ch:
                    continue
                if ch[0] == "self" and len(ch) >= 2:
                    (fi.mutates_self if subscripted or len(ch) > 2 else fi.writes_self).add(ch[1])
                elif ch[0] in module_level_names and (subscripted or len(ch) > 1 or isinstance(n, ast.AugAssign)):
                    if len(ch) > 1 and ch[0][:1].isupper():
                        fi.class_attr_writes.add((ch[0], ch[1]))
                    fi.module_name_writes.add(ch[0])
                elif len(ch) == 2 and ch[0][:1].isupper():
                    fi.class_attr_writes.add((ch[0], ch[1]))
        if isinstance(n, ast.Call):
            ch = _attr_chain(n.func)
            if ch:
                fi.calls.add(ch[-1])
                if ch[-1] in MUTATORS and len(ch) >= 2:
                    if ch[0] == "self" and len(ch) >= 3:
                        fi.mutates_self.add(ch[1])
                    elif ch[0] in module_level_names:
                        fi.module_name_writes.add(ch[0])
        if isinstance(n, ast.Attribute):
            ch = _attr_chain(n)
            if ch and ch[0] == "self" and len(ch) >= 2:
                fi.reads_self.add(ch[1])
            if ch and len(ch) >= 2:
                fi.attr_pairs_read.add((ch[0], ch[1]))
        if isinstance(n, ast.Name):
            fi.names_read.add(n.id)


def census(pkg_dir):
    pkg_dir = Path(pkg_dir)
    funcs = []
    module_names = {}
    for path in sorted(pkg_dir.rglob("*.py")):
        rel = path.relative_to(pkg_dir)
        if any(p in SKIP_DIRS for p in rel.parts):
            continue
        try:
            tree = ast.parse(path.read_text())
        except SyntaxError:
            continue
        mod = str(rel)
        mlevel = set()
        for n in tree.body:
            if isinstance(n, (ast.Assign, ast.AnnAssign, ast.AugAssign)):
                for t in (n.targets if isinstance(n, ast.Assign) else [n.target]):
                    for tt in ast.walk(t):
                        if isinstance(tt, ast.Name):
                            mlevel.add(tt.id)
            elif isinstance(n, ast.ClassDef):
                mlevel.add(n.name)
        module_names[mod] = mlevel
        for n in tree.body:
            if isinstance(n, (ast.FunctionDef, ast.AsyncFunctionDef)):
                funcs.append(_FuncInfo(mod, None, n.name, n))
            elif isinstance(n, ast.ClassDef):
                for m in n.body:
                    if isinstance(m, (ast.FunctionDef, ast.AsyncFunctionDef)):
                        funcs.append(_FuncInfo(mod, n.name, m.name, m))
    for fi in funcs:
        _analyse_function(fi, module_names[fi.module])

    cached = sorted(fi.qual for fi in funcs if fi.cached)
    # (c) instance attributes written outside __init__ or mutated anywhere, per class
    shared_attrs = {}
    for fi in funcs:
        if fi.cls is None:
            continue
        key = (fi.module, fi.cls)
        if fi.name not in ("__init__", "__new__"):
            for a in fi.writes_self:
                shared_attrs.setdefault(key, set()).add(a)
        for a in fi.mutates_self:
            shared_attrs.setdefault(key, set()).add(a)
    # (b) module-level names mutated / rebound at run time, class attributes rebound through the class
    shared_globals = {}
    for fi in funcs:
        for g in fi.global_names | fi.module_name_writes:
            shared_globals.setdefault(fi.module, set()).add(g)
    class_attrs = set()
    for fi in funcs:
        class_attrs |= fi.class_attr_writes
    closure = set()
    reasons = {}
    for fi in funcs:
        why = []
        if fi.cls is not None:
            sa = shared_attrs.get((fi.module, fi.cls), set())
            hit = (fi.reads_self | fi.writes_self | fi.mutates_self) & sa
            if hit and fi.name not in ("__init__", "__new__"):
                why.append("instance attribute(s) " + ",".join(sorted(hit)))
        sg = shared_globals.get(fi.module, set())
        hitg = (fi.names_read | fi.global_names | fi.module_name_writes) & sg
        if hitg:
            why.append("module-level " + ",".join(sorted(hitg)))
        for cname, attr in class_attrs:
            if (cname, attr) in fi.attr_pairs_read or (fi.cls == cname and attr in fi.reads_self) or ("cls", attr) in fi.attr_pairs_read:
                why.append(f"class attribute {cname}.{attr}")
        if why:
            closure.add(fi.qual)
            reasons[fi.qual] = "; ".join(sorted(set(why)))
    # callers inside the same class / module of closure functions
    names_in_closure = {}
    for q in closure:
        mod, rest = q.split(":")
        names_in_closure.setdefault(mod, set()).add(rest.split(".")[-1])
    for fi in funcs:
        if fi.qual in closure:
            continue
        called = fi.calls & names_in_closure.get(fi.module, set())
        if called and fi.cls is not None and fi.name not in ("__init__",):
            closure.add(fi.qual)
            reasons[fi.qual] = "calls " + ",".join(sorted(called))
    # level 2: functions that call a memoised function (they receive arrays that other calls share)
    cached_names = {}
    for fi in funcs:
        if fi.cached:
            cached_names.setdefault(fi.name, set()).add(fi.module)
    callers = set()
    for fi in funcs:
        hit = fi.calls & set(cached_names)
        if hit:
            callers.add(fi.qual)
            reasons.setdefault(fi.qual, "calls memoised " + ",".join(sorted(hit)))
    for fi in funcs:
        if fi.cached:
            callers.add(fi.qual)
            reasons.setdefault(fi.qual, "memoised function body")
    return {
        "cached_functions": cached,
        "closure_level2": sorted(callers - closure),
        "shared_instance_attributes": {f"{m}:{c}": sorted(v) for (m, c), v in sorted(shared_attrs.items())},
        "shared_module_names": {m: sorted(v) for m, v in sorted(shared_globals.items())},
        "class_attributes_rebound": sorted(f"{c}.{a}" for c, a in class_attrs),
        "closure": sorted(closure),
        "closure_reasons": reasons,
    }


def closure_code_index(pkg_dir, cen=None, level=1):
    """{absolute filename: {function names}} for the trace function"""
    cen = cen or census(pkg_dir)
    pkg_dir = Path(pkg_dir)
    wanted = {}
    for q in cen["closure"] + (cen["closure_level2"] if level >= 2 else []):
        mod, rest = q.split(":")
        wanted.setdefault(str((pkg_dir / mod).resolve()), set()).add(rest.split(".")[-1])
    return wanted


if __name__ == "__main__":
    import json
    import sys

    c = census(sys.argv[1] if len(sys.argv) > 1 else os.path.join(os.environ.get("VERIF_REPO", "/repo"), "acryo"))
    print(json.dumps({k: v for k, v in c.items() if k != "closure_reasons"}, indent=1))
    for k, v in c["closure_reasons"].items():
        print(k, "<-", v)
