import sys
from vf.core import main

sys.exit(main())
