import sys

if __name__ == "__main__":
    from vf.core import main

    sys.exit(main())
