"""Runner shared by every property check.

Protocol (see DESIGN.md R4/R5, section 8):
  exit 0  the property held on everything explored (open findings are printed
          as KNOWN-FINDING lines)
  exit 1  at least one violation whose signature is not an open finding; one
          line ``VIOLATION property=<id> replay=<path>`` per new signature
  exit 2  harness error -- never a verdict

A property module (vf/props/cXX.py) provides
  ID, LEVEL, RULE, ASSUMPTIONS, DESIGN_REF
  cases(tier, seed) -> list of JSON-serialisable dicts   (the complete, ordered
                       enumeration; simplest first)
  run_case(case)   -> dict(nontrivial=bool, outcome=str, viol=[(sig, msg), ...])
and optionally
  extra(tier, seed, report) -> None   further engines (E2/E3/E4) that add to the
                       same report
  AXES(tier)       -> dict name -> list   (only for the evidence file)
"""
from __future__ import annotations

import hashlib
import importlib
import json
import multiprocessing as mp
import os
import subprocess
import sys
import time
import traceback
from pathlib import Path

ROOT = Path(__file__).resolve().parent.parent
REPO = Path(os.environ.get("VERIF_REPO", "/repo")).resolve()
FINDINGS_FILE = ROOT / "KNOWN_FINDINGS.txt"
EVIDENCE_SCHEMA = Path("/root/.vp/EVIDENCE.schema.json")


class HarnessError(RuntimeError):
    pass


def bind_repo():
    """Import acryo from the tree under test and nothing else."""
    p = str(REPO)
    if p in sys.path:
        sys.path.remove(p)
    sys.path.insert(0, p)
    import acryo  # noqa

    f = Path(acryo.__file__).resolve()
    if REPO not in f.parents:
        raise HarnessError(f"acryo imported from {f}, not from {REPO}")
    return acryo


def jsonable(x):
    import numpy as np

    if isinstance(x, dict):
        return {str(k): jsonable(v) for k, v in x.items()}
    if isinstance(x, (list, tuple, set, frozenset)):
        return [jsonable(v) for v in x]
    if isinstance(x, np.ndarray):
        return jsonable(x.tolist())
    if isinstance(x, (np.integer,)):
        return int(x)
    if isinstance(x, (np.floating,)):
        return float(x)
    if isinstance(x, (np.bool_,)):
        return bool(x)
    if isinstance(x, float):
        if x != x or x in (float("inf"), float("-inf")):
            return repr(x)
        return x
    if isinstance(x, (str, int, bool)) or x is None:
        return x
    return repr(x)


def case_key(case) -> str:
    return hashlib.sha1(
        json.dumps(jsonable(case), sort_keys=True).encode()
    ).hexdigest()[:16]


def acryo_frame(tb) -> str | None:
    """Innermost frame of the traceback that lies in the tree under test."""
    found = None
    for fs in traceback.extract_tb(tb):
        try:
            if REPO in Path(fs.filename).resolve().parents:
                found = f"{Path(fs.filename).name}:{fs.name}"
        except Exception:
            pass
    return found


def guarded(prop_id, fn, case):
    """Run one case; an exception escaping from the tree under test is a
    violation (the operation did not deliver its result), an exception that
    never touched the tree is a harness error."""
    try:
        res = fn(case)
    except Exception as e:  # noqa
        site = acryo_frame(e.__traceback__)
        if site is None:
            return {
                "harness_error": "".join(
                    traceback.format_exception(type(e), e, e.__traceback__)
                )
            }
        return {
            "nontrivial": True,
            "outcome": f"raised {type(e).__name__}",
            "viol": [
                (
                    f"{prop_id}|unexpected-exception|{type(e).__name__}|{site}",
                    f"{type(e).__name__}: {e}",
                )
            ],
        }
    res.setdefault("nontrivial", True)
    res.setdefault("outcome", "ok")
    res.setdefault("viol", [])
    return res


_FN = None
_PID = None


def _init_worker(modname):
    global _FN, _PID
    bind_repo()
    mod = importlib.import_module(modname)
    _FN = mod.run_case
    _PID = mod.ID


def _work(chunk):
    out = []
    for idx, case in chunk:
        out.append((idx, guarded(_PID, _FN, case)))
    return out


class Report:
    def __init__(self, prop_id, level, tier, seed):
        self.prop_id = prop_id
        self.level = level
        self.tier = tier
        self.seed = seed
        self.t0 = time.time()
        self.evaluations = 0
        self.nontrivial = set()
        self.outcomes = {}
        self.violations = []  # (sig, msg, case)
        self.samples = []
        self.cov = {}
        self.assumptions = []
        self.rule = ""
        self.harness_errors = []
        self.exhaustive = True
        self.metrics = {}

    # -- bookkeeping used by every engine
    def record(self, case, res):
        self.evaluations += 1
        if "harness_error" in res:
            self.harness_errors.append((case, res["harness_error"]))
            return
        if res.get("nontrivial", True):
            self.nontrivial.add(case_key(case))
        o = str(res.get("outcome", "ok"))
        self.outcomes[o] = self.outcomes.get(o, 0) + 1
        for sig, msg in res.get("viol", []):
            self.violations.append((sig, msg, case))
        for k, v in (res.get("metrics") or {}).items():
            m = self.metrics.setdefault(k, {"n": 0, "sum": 0.0, "max": float("-inf"), "min": float("inf")})
            m["n"] += 1
            m["sum"] += float(v)
            m["max"] = max(m["max"], float(v))
            m["min"] = min(m["min"], float(v))

    def add_sample(self, s, limit=6):
        if len(self.samples) < limit:
            self.samples.append(jsonable(s))


def run_cases(report: Report, modname: str, cases, jobs=None, chunk=None):
    """E1: evaluate the complete case list, sharded over worker processes."""
    jobs = jobs or int(os.environ.get("VERIF_JOBS", os.cpu_count() or 4))
    n = len(cases)
    if n == 0:
        return
    indexed = list(enumerate(cases))
    if chunk is None:
        chunk = max(1, min(64, n // (jobs * 8) or 1))
    chunks = [indexed[i : i + chunk] for i in range(0, n, chunk)]
    results = [None] * n
    if jobs == 1:
        _init_worker(modname)
        for c in chunks:
            for idx, r in _work(c):
                results[idx] = r
    else:
        ctx = mp.get_context("spawn")  # parents may already hold polars/BLAS threads: never fork
        with ctx.Pool(jobs, initializer=_init_worker, initargs=(modname,)) as pool:
            for out in pool.imap_unordered(_work, chunks):
                for idx, r in out:
                    results[idx] = r
    for (idx, case), r in zip(indexed, results):
        report.record(case, r)
    step = max(1, n // 4)
    for i in range(0, n, step):
        report.add_sample({"case": cases[i], "outcome": results[i].get("outcome")})


def load_findings(prop_id):
    """open findings {sig: text}, fixed lines, and {sig: set of case keys or None}.

    A finding line may carry inputs=<file relative to /verif>: a committed list of `sig<TAB>case-key<TAB>description`
    lines naming the exact inputs that fail.  The finding then covers only those inputs: the same coarse
    signature on an input that is not listed is reported as a new violation."""
    open_, fixed = {}, []
    inputs = {}
    if FINDINGS_FILE.exists():
        for line in FINDINGS_FILE.read_text().splitlines():
            line = line.strip()
            if not line or line.startswith("#"):
                continue
            kind, _, rest = line.partition(":")
            toks = rest.split()
            kv = dict(t.split("=", 1) for t in toks if "=" in t and t.split("=")[0] in ("property", "sig", "inputs"))
            if kv.get("property") != prop_id:
                continue
            if kind == "finding":
                text = " ".join(t for t in toks if not t.startswith(("property=", "sig=", "inputs=")))
                open_[kv.get("sig", "")] = text
                if "inputs" in kv:
                    keys = set()
                    for l in (ROOT / kv["inputs"]).read_text().splitlines():
                        f = l.split("\t")
                        if len(f) >= 2 and f[0] == kv.get("sig", ""):
                            keys.add(f[1])
                    inputs[kv.get("sig", "")] = keys
            elif kind == "fixed":
                fixed.append(rest.strip())
    load_findings.inputs = inputs
    return open_, fixed


def validate_evidence(path: Path):
    ev = json.loads(path.read_text())
    for k in ("property_id", "tier", "seed", "level", "coverage", "wall_s"):
        if k not in ev:
            raise HarnessError(f"evidence lacks {k}")
    vt = "/opt/veriftools/pyvenv/bin/python"
    if os.path.exists(vt) and EVIDENCE_SCHEMA.exists():
        code = (
            "import json,sys,jsonschema;"
            "jsonschema.validate(json.load(open(sys.argv[1])),json.load(open(sys.argv[2])))"
        )
        r = subprocess.run(
            [vt, "-c", code, str(path), str(EVIDENCE_SCHEMA)],
            capture_output=True,
            text=True,
            env={k: v for k, v in os.environ.items() if not k.startswith("PYTHON")},
        )
        if r.returncode != 0:
            raise HarnessError("evidence does not validate: " + r.stderr[-800:])


def finish(report: Report, mod) -> int:
    pid = report.prop_id
    open_findings, _fixed = load_findings(pid)
    listed = load_findings.inputs
    by_sig = {}
    for sig, msg, case in report.violations:
        if sig in open_findings and listed.get(sig) is not None and case_key(case) not in listed[sig]:
            sig = sig + "|input-not-listed"  # same class of failure as a recorded finding, but on an input the finding does not name
        by_sig.setdefault(sig, []).append((msg, case))
    dump = os.environ.get("VERIF_DUMP_VIOLATIONS")
    if dump:  # maintenance aid (tools/list_finding_inputs.py); never read back by a check
        with open(dump, "w") as f:
            for sig, msg, case in report.violations:
                f.write(json.dumps({"sig": sig, "key": case_key(case), "case": jsonable(case), "msg": msg}) + "\n")

    new_sigs = [s for s in by_sig if s not in open_findings]
    known_sigs = [s for s in by_sig if s in open_findings]

    rdir = Path(os.environ.get("VERIF_REPLAY_DIR", ROOT / "replays")) / pid  # (maintenance tools redirect both directories)
    if rdir.exists():  # replays always describe the latest run only
        for old in rdir.glob("*.json"):
            old.unlink()
    replay_paths = {}
    for sig in new_sigs:
        msg, case = by_sig[sig][0]
        rdir.mkdir(parents=True, exist_ok=True)
        h = hashlib.sha1(sig.encode()).hexdigest()[:10]
        p = rdir / f"{h}.json"
        p.write_text(
            json.dumps(
                jsonable(
                    {
                        "property": pid,
                        "signature": sig,
                        "message": msg,
                        "n_cases_with_signature": len(by_sig[sig]),
                        "case": case,
                        "replay": f"./check {pid} --replay {p}",
                    }
                ),
                indent=1,
            )
        )
        replay_paths[sig] = p

    wall = time.time() - report.t0
    cov = dict(report.cov)
    cov.setdefault("evaluations", report.evaluations)
    cov.setdefault("distinct_nontrivial", len(report.nontrivial))
    cov.setdefault("rule", report.rule or getattr(mod, "RULE", ""))
    cov.setdefault("samples", report.samples or [{"note": "no sample recorded"}])
    cov.setdefault("exhaustive", report.exhaustive)
    cov["distinct_outcomes"] = len(report.outcomes)
    cov["outcome_histogram"] = dict(sorted(report.outcomes.items(), key=lambda kv: -kv[1])[:20])
    cov["metrics"] = {k: {"n": m["n"], "mean": m["sum"] / max(1, m["n"]), "max": m["max"], "min": m["min"]} for k, m in report.metrics.items()}
    cov["violating_signatures_new"] = sorted(new_sigs)
    cov["violating_signatures_known"] = sorted(known_sigs)
    cov["tree_under_test"] = str(REPO)
    ev = {
        "property_id": pid,
        "tier": report.tier,
        "seed": report.seed,
        "level": report.level,
        "coverage": jsonable(cov),
        "assumptions": list(getattr(mod, "ASSUMPTIONS", [])) + report.assumptions,
        "wall_s": round(wall, 2),
        "violations": len(report.violations),
    }
    edir = Path(os.environ.get("VERIF_EVIDENCE_DIR", ROOT / "evidence"))
    edir.mkdir(exist_ok=True, parents=True)
    epath = edir / f"{pid}.json"
    epath.write_text(json.dumps(ev, indent=1))

    if report.harness_errors:
        case, tb = report.harness_errors[0]
        print(f"HARNESS-ERROR property={pid} ({len(report.harness_errors)} cases); first:")
        print(json.dumps(jsonable(case))[:600])
        print(tb)
        return 2
    try:
        validate_evidence(epath)
    except HarnessError as e:
        print(f"HARNESS-ERROR property={pid} {e}")
        return 2

    print(
        f"[{pid}] tier={report.tier} seed={report.seed} evaluations={cov['evaluations']} "
        f"nontrivial={cov['distinct_nontrivial']} outcomes={len(report.outcomes)} "
        + " ".join(f"{k}={cov[k]}" for k in ("states", "transitions", "traces_validated_against_impl") if k in cov)
        + f" wall={wall:.1f}s"
    )
    for sig in known_sigs:
        print(f"KNOWN-FINDING: property={pid} {open_findings[sig]} [sig={sig}; {len(by_sig[sig])} cases]")
    for sig in new_sigs:
        msg, _ = by_sig[sig][0]
        print(f"  signature {sig} ({len(by_sig[sig])} cases): {msg[:300]}")
        print(f"VIOLATION property={pid} replay={replay_paths[sig]}")
    return 1 if new_sigs else 0


def replay(mod, path) -> int:
    d = json.loads(Path(path).read_text())
    case = d["case"]
    if "engine" in case and hasattr(mod, "replay_case"):
        res = guarded(mod.ID, mod.replay_case, case)
    else:
        res = guarded(mod.ID, mod.run_case, case)
    if "harness_error" in res:
        print(res["harness_error"])
        return 2
    print(json.dumps(jsonable({"case": case, "result": res}), indent=1)[:4000])
    if res["viol"]:
        for sig, msg in res["viol"]:
            print(f"  signature {sig}: {msg[:400]}")
        print(f"VIOLATION property={mod.ID} replay={path}")
        return 1
    print(f"[{mod.ID}] replay held")
    return 0


def main(argv=None) -> int:
    import argparse

    ap = argparse.ArgumentParser(prog="check")
    ap.add_argument("prop")
    ap.add_argument("--tier", default=os.environ.get("VERIF_TIER", "quick"))
    ap.add_argument("--replay")
    ap.add_argument("--jobs", type=int)
    ap.add_argument("--only", help="debug: restrict to cases whose JSON contains this text")
    a = ap.parse_args(argv)
    tier = {"q": "quick", "t": "thorough"}.get(a.tier, a.tier)
    if tier not in ("quick", "thorough"):
        print("bad tier")
        return 2
    seed = int(os.environ.get("VERIF_SEED", "0") or 0)
    pid = a.prop.upper()
    try:
        bind_repo()
        modname = f"vf.props.{pid.lower()}"
        mod = importlib.import_module(modname)
        if a.replay:
            return replay(mod, a.replay)
        report = Report(pid, mod.LEVEL, tier, seed)
        cases = mod.cases(tier, seed) if hasattr(mod, "cases") else []
        if a.only:
            cases = [c for c in cases if a.only in json.dumps(jsonable(c))]
        if hasattr(mod, "AXES"):
            report.cov["axes"] = {k: (len(v) if isinstance(v, (list, tuple)) else v) for k, v in mod.AXES(tier).items()}
        run_cases(report, modname, cases, jobs=a.jobs)
        if hasattr(mod, "extra"):
            mod.extra(tier, seed, report)
        return finish(report, mod)
    except HarnessError as e:
        print(f"HARNESS-ERROR property={pid} {e}")
        return 2
    except Exception:
        traceback.print_exc()
        print(f"HARNESS-ERROR property={pid}")
        return 2
