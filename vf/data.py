"""Standard alphabets and self-identifying data (DESIGN.md section 2)."""
from __future__ import annotations

import itertools

import numpy as np


def cube24():
    """The 24 proper rotations of the cube as integer 3x3 matrices, identity first,
    then ordered by (number of moved axes, lexicographic)."""
    mats = []
    for perm in itertools.permutations(range(3)):
        for signs in itertools.product((1, -1), repeat=3):
            m = np.zeros((3, 3), dtype=int)
            for r, (c, s) in enumerate(zip(perm, signs)):
                m[r, c] = s
            if round(np.linalg.det(m)) == 1:
                mats.append(m)
    mats.sort(key=lambda m: (-int(np.trace(m)), m.flatten().tolist()))
    assert len(mats) == 24 and np.array_equal(mats[0], np.eye(3, dtype=int))
    return mats


CUBE24 = cube24()

# generic and degenerate rotations as rotation vectors (in the library's z,y,x coordinate space)
GEN_ROTVECS = [
    (0.4, -0.7, 0.5),
    (-1.1, 0.3, 0.2),
    (0.0, 0.0, np.pi / 6),
    (2.0, -1.5, 1.1),
]
DEGEN_ROTVECS = [
    (np.pi, 0.0, 0.0),
    (0.0, np.pi, 0.0),
    (0.0, 0.0, np.pi),
    (np.pi / np.sqrt(2), np.pi / np.sqrt(2), 0.0),
    tuple(np.array([0.3, -0.5, 0.81]) / np.linalg.norm([0.3, -0.5, 0.81]) * (np.pi - 1e-6)),
    (1e-8, 0.0, 0.0),
    # small but real rotations (0.4 and 0.5 degrees, the size of a fine angular refinement step): an "is this the identity?"
    # shortcut with a loose tolerance shows here
    tuple(np.array([0.3, -0.5, 0.81]) / np.linalg.norm([0.3, -0.5, 0.81]) * 0.007),
    (0.0, 0.0, 0.0087),
]


def rotvec_to_matrix(rv):
    from scipy.spatial.transform import Rotation

    return Rotation.from_rotvec(np.asarray(rv, dtype=np.float64)).as_matrix()


def named_rotations(which=("cube", "gen", "degen")):
    """[(name, 3x3 float matrix acting on (z, y, x) column vectors)]"""
    out = []
    if "cube" in which:
        for i, m in enumerate(CUBE24):
            out.append((f"cube{i}", m.astype(np.float64)))
    if "gen" in which:
        for i, rv in enumerate(GEN_ROTVECS):
            out.append((f"gen{i}", rotvec_to_matrix(rv)))
    if "degen" in which:
        for i, rv in enumerate(DEGEN_ROTVECS):
            out.append((f"degen{i}", rotvec_to_matrix(rv)))
    return out


ROT_BY_NAME = dict(named_rotations())


def rot_matrix(name):
    return ROT_BY_NAME[name]


def scipy_rot(name):
    from scipy.spatial.transform import Rotation

    return Rotation.from_matrix(ROT_BY_NAME[name])


# ---------------------------------------------------------------- analytic particles
_BLOBS = [
    # (amplitude, centre offset from box centre in px (z,y,x), sigma px)
    (1.0, (0.0, 0.0, 0.0), 1.3),
    (0.8, (1.6, -0.9, 0.6), 1.0),
    (0.6, (-1.1, 1.4, -1.7), 1.1),
    (0.5, (0.4, 1.9, 1.5), 0.9),
]


def particle(coords, blobs=None, sigma_scale=1.0):
    """Asymmetric sum of Gaussians evaluated at coords (..., 3) given relative to
    the particle's own centre, in pixels."""
    blobs = blobs or _BLOBS
    out = np.zeros(coords.shape[:-1], dtype=np.float64)
    for a, c, s in blobs:
        s = s * sigma_scale
        d2 = ((coords - np.asarray(c)) ** 2).sum(-1)
        out += a * np.exp(-d2 / (2 * s * s))
    return out


def box_coords(shape):
    """Voxel coordinates relative to the box centre (shape-1)/2, (...,3)."""
    g = np.stack(np.meshgrid(*[np.arange(n, dtype=np.float64) for n in shape], indexing="ij"), -1)
    return g - (np.asarray(shape) - 1) / 2


def particle_box(shape, shift=(0, 0, 0), rot=None, blobs=None, sigma_scale=1.0):
    """Template-like image: value at voxel k is g(R^-1 (k - c - shift)), i.e. the
    particle rotated by R about the box centre and then displaced by `shift` px."""
    x = box_coords(shape) - np.asarray(shift, dtype=np.float64)
    if rot is not None:
        x = x @ np.asarray(rot)  # row-vector form of R^-1 x
    return particle(x, blobs, sigma_scale).astype(np.float32)
