"""E2 for call histories: does the answer of a call depend on what was called before?

Shared by the properties whose code keeps state between calls (memoised weights and normals,
templates cached on a model, images cached on a simulator, a provider stored on a matcher, files
read by path).  The deciding step is exhaustive: every sequence of operations of the alphabet up
to the depth bound is run on a fresh state (fresh objects, empty memo caches), and the observation
of its LAST operation is compared with the observation of the same operation run alone on a fresh
state (a differential oracle: no hand-written expected values).  Observations of the earlier
operations of a sequence were checked when that prefix was the sequence.

A `state` is whatever `make()` returns; operations are `(name, fn)` with `fn(state) -> observation`
(numpy arrays, numbers, nested lists / dicts of them).  Operations may mutate the state - that is
the point - but an operation that is *specified* to change later answers (e.g. add a molecule) must
not be in the alphabet, or must return a new object and leave the state alone.
"""
from __future__ import annotations

import itertools

import numpy as np


def reset_memo_caches():
    """what a fresh process would have: empty lru_caches in every acryo module, default backend name"""
    import sys

    for name, mod in list(sys.modules.items()):
        if name == "acryo" or name.startswith("acryo."):
            for v in list(vars(mod).values()):
                cc = getattr(v, "cache_clear", None)
                if callable(cc):
                    try:
                        cc()
                    except Exception:
                        pass
    from acryo.backend import Backend

    Backend._default = "numpy"


def same(a, b, atol=1e-6, rtol=1e-6):
    """structural comparison of two observations; returns (ok, why)"""
    if isinstance(a, dict) and isinstance(b, dict):
        if sorted(map(str, a)) != sorted(map(str, b)):
            return False, f"keys {sorted(map(str, a))} vs {sorted(map(str, b))}"
        for k in a:
            ok, why = same(a[k], b[k], atol, rtol)
            if not ok:
                return False, f"[{k}] {why}"
        return True, ""
    if isinstance(a, (list, tuple)) and isinstance(b, (list, tuple)):
        if len(a) != len(b):
            return False, f"length {len(a)} vs {len(b)}"
        for i, (x, y) in enumerate(zip(a, b)):
            ok, why = same(x, y, atol, rtol)
            if not ok:
                return False, f"[{i}] {why}"
        return True, ""
    if isinstance(a, (str, bytes, bool, type(None))) or isinstance(b, (str, bytes, bool, type(None))):
        return (a == b), f"{a!r} vs {b!r}"
    x, y = np.asarray(a), np.asarray(b)
    if x.shape != y.shape:
        return False, f"shape {x.shape} vs {y.shape}"
    if x.dtype.kind in "OUS" or y.dtype.kind in "OUS":
        return bool(np.array_equal(x, y)), "object arrays differ"
    x, y = x.astype(np.float64), y.astype(np.float64)
    if not np.allclose(x, y, atol=atol, rtol=rtol, equal_nan=True):
        d = np.abs(x - y)
        d = d[np.isfinite(d)]
        return False, f"max abs difference {float(d.max()) if d.size else float('nan'):.4g} (values up to {float(np.nanmax(np.abs(y))) if y.size else 0:.4g})"
    return True, ""


def explore(make, ops, depth, atol=1e-6, rtol=1e-6, fresh=reset_memo_caches, prefixes_only_from=None, mutators=()):
    """Run every sequence over `ops` of length 1..depth.  Returns a dict:
        sequences   number of sequences executed
        calls       number of operation calls (transitions)
        failures    list of (history names, why)  - last observation differs from the solo observation
        errors      list of (history names, exception repr) - an operation raised after a history although it does not raise alone
        nondeterministic  names of operations whose two solo runs differ (excluded from the comparison)
        raises_alone      names of operations that raise on a fresh state (raises_alone_msg: their messages); every operation
                          of an alphabet is a valid call, so the property modules report these as violations
    `prefixes_only_from`: optional set of op names allowed in non-final positions (the rest are only ever the final call).
    `mutators`: (name, fn) pairs of operations that are *specified* to change later answers (overwrite a component, append
    a row).  They occur in non-final positions only; the reference for a sequence is then the last operation on a fresh state
    to which just the mutators of the prefix were applied, in order - i.e. observations must leave no trace, and a mutation
    must have the same effect whatever was observed before it.
    """
    names = [n for n, _ in ops]
    fns = dict(ops)
    solo, nondet, solo_err = {}, [], {}
    for n in names:
        obs = []
        for _ in range(2):
            fresh()
            st = make()
            try:
                obs.append(("ok", fns[n](st)))
            except Exception as e:  # noqa
                obs.append(("raised", f"{type(e).__name__}: {e}"))
        if obs[0][0] != obs[1][0]:
            nondet.append(n)
        elif obs[0][0] == "raised":
            solo_err[n] = obs[0][1]
        else:
            ok, _ = same(obs[0][1], obs[1][1], atol, rtol)
            if not ok:
                nondet.append(n)
            solo[n] = obs[0][1]
    out = {"sequences": 0, "calls": 0, "failures": [], "errors": [], "nondeterministic": nondet, "raises_alone": sorted(solo_err), "raises_alone_msg": dict(solo_err)}
    usable = [n for n in names if n in solo and n not in nondet]
    mut = dict(mutators)
    inner = [n for n in usable if prefixes_only_from is None or n in prefixes_only_from] + list(mut)
    fns.update(mut)
    for d in range(2, depth + 1):
        for pre in itertools.product(inner, repeat=d - 1):
            for last in usable:
                fresh()
                st = make()
                hist = list(pre) + [last]
                try:
                    for n in pre:
                        fns[n](st)
                        out["calls"] += 1
                    got = fns[last](st)
                    out["calls"] += 1
                except Exception as e:  # noqa
                    out["errors"].append((hist, f"{type(e).__name__}: {e}"))
                    out["sequences"] += 1
                    continue
                out["sequences"] += 1
                want = solo[last]
                if any(n in mut for n in pre):
                    if not any(n not in mut for n in pre):
                        continue  # mutators only: this run IS the reference of the longer sequences
                    fresh()
                    st = make()
                    for n in pre:
                        if n in mut:
                            fns[n](st)
                    want = fns[last](st)
                    out["calls"] += 1 + sum(1 for n in pre if n in mut)
                ok, why = same(got, want, atol, rtol)
                if not ok:
                    out["failures"].append((hist, why))
    out["sequences"] += len(usable)
    out["calls"] += 2 * len(names)
    return out
