"""E4 -- thread interleaving explorer on the real code (DESIGN.md section 2).

Real threads run short bodies against shared objects; a cooperative scheduler hands a
baton (one semaphore per thread) so that exactly one thread runs at a time.  Scheduling
points come from sys.settrace with f_trace_opcodes enabled only in frames of functions in
the shared-state closure (vf/census.py), and only at opcodes where CPython 3.12 can really
release the GIL between two bytecodes of the same thread: the first opcode after a CALL*
returned, RESUME and JUMP_BACKWARD.  Everything else (numpy, scipy, code outside the
closure) runs atomically.  Exploration is iterative preemption bounding by stateless DFS
over choice prefixes: switching away from a thread that could continue costs one
preemption; a thread exit is a free choice point.
"""
from __future__ import annotations

import opcode
import sys
import threading

CALLS = {opcode.opmap[n] for n in opcode.opmap if n.startswith("CALL")}
SPECIAL = {opcode.opmap[n] for n in ("RESUME", "JUMP_BACKWARD", "JUMP_BACKWARD_NO_INTERRUPT") if n in opcode.opmap}


class Divergence(RuntimeError):
    pass


class Execution:
    """one execution of `bodies` (list of zero-argument callables) under a choice prefix"""

    def __init__(self, bodies, prefix, closure_index, horizon=20000):
        self.bodies = bodies
        self.prefix = list(prefix)
        self.n = len(bodies)
        self.closure = closure_index  # {filename: {function names}}
        self.sems = [threading.Semaphore(0) for _ in bodies]
        self.done = [False] * self.n
        self.results = [None] * self.n
        self.errors = [None] * self.n
        self.tracebacks = [None] * self.n
        self.points = []  # (running thread or None, enabled list, where)
        self.choices = []
        self.main_sem = threading.Semaphore(0)
        self.lastop = {}
        self.horizon = horizon
        self.overrun = False

    # -- tracing
    def _tracer(self, tid):
        closure = self.closure

        def local(frame, event, arg):
            if event == "opcode":
                op = frame.f_code.co_code[frame.f_lasti]
                key = id(frame)
                prev = self.lastop.get(key)
                self.lastop[key] = op
                if prev in CALLS or op in SPECIAL:
                    self._point(tid, (frame.f_code.co_name, frame.f_lineno))
            elif event == "return":
                self.lastop.pop(id(frame), None)
            return local

        def glob(frame, event, arg):
            names = closure.get(frame.f_code.co_filename)
            if names and frame.f_code.co_name in names:
                frame.f_trace_opcodes = True
                return local
            return None

        return glob

    def _point(self, tid, where):
        if len(self.points) >= self.horizon:
            self.overrun = True
            return
        enabled = [tid] + [i for i in range(self.n) if i != tid and not self.done[i]]
        i = len(self.points)
        if i < len(self.prefix):
            c = self.prefix[i]
            if c >= len(enabled):
                raise Divergence(f"choice {c} at point {i} ({where}) but only {len(enabled)} threads enabled")
        else:
            c = 0
        self.points.append((tid, enabled, where))
        self.choices.append(c)
        nxt = enabled[c]
        if nxt != tid:
            self.sems[nxt].release()
            self.sems[tid].acquire()

    def _run(self, tid):
        self.sems[tid].acquire()
        sys.settrace(self._tracer(tid))
        try:
            self.results[tid] = self.bodies[tid]()
        except BaseException as e:  # noqa
            import traceback

            self.errors[tid] = e
            self.tracebacks[tid] = traceback.format_exc()
        finally:
            sys.settrace(None)
            self.done[tid] = True
            rest = [i for i in range(self.n) if not self.done[i]]
            if rest:
                i = len(self.points)
                c = self.prefix[i] if i < len(self.prefix) else 0
                if c >= len(rest):
                    c = 0
                self.points.append((None, rest, "exit"))
                self.choices.append(c)
                self.sems[rest[c]].release()
            else:
                self.main_sem.release()

    def run(self):
        ths = [threading.Thread(target=self._run, args=(i,), daemon=True) for i in range(self.n)]
        for t in ths:
            t.start()
        self.sems[0].release()
        if not self.main_sem.acquire(timeout=120):
            raise RuntimeError("deadlock or runaway execution: no thread finished within 120 s")
        for t in ths:
            t.join()
        return self

    def preemptions(self, upto=None):
        upto = len(self.choices) if upto is None else upto
        return sum(1 for j in range(upto) if self.choices[j] != 0 and self.points[j][0] is not None)


def explore(make_bodies, closure_index, bound, max_executions=20000, before_each=None):
    """Iterative preemption bounding is done by the caller (bound = 0, 1, 2 ...).  Yields Execution objects."""
    stack = [[]]
    n = 0
    explore.capped = False
    while stack:
        prefix = stack.pop()
        if before_each:
            before_each()
        ex = Execution(make_bodies(), prefix, closure_index).run()
        n += 1
        yield ex
        if n >= max_executions:
            explore.capped = bool(stack)
            return
        for i in range(len(prefix), len(ex.points)):
            running, enabled, _ = ex.points[i]
            base = ex.preemptions(i)
            for alt in range(1, len(enabled)):
                cost = base + (1 if running is not None else 0)
                if cost > bound:
                    continue
                stack.append(ex.choices[:i] + [alt])
