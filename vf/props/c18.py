"""C18 -- PCA classification matches exact PCA; labels stay attached to their molecules.

E1: image stacks x masks x n_components x every composition of the stack into row chunks
x spatial chunkings x data class (low-rank + noise / full-rank noise), on both sides of
the 500-feature solver switch; singular values, components and projections against an
exact SVD of the centred masked data.  Planted two-class stacks: every one of the 2^N - 2
class patterns must be recovered as a partition.  loader.classify: one label per molecule
in molecule order, nothing else changed.
"""
from __future__ import annotations

import itertools

import numpy as np

from vf import data

ID = "C18"
LEVEL = "exploration"
DESIGN_REF = "DESIGN.md section 3, C18"
RULE = (
    "fit family: full product image shape x N x mask x n_components x data class x row-chunk composition (all 2^(N-1) for N<=5, a fixed set for N in {8,30,40}) x spatial chunking; "
    "pattern family: N in {4,5} x every non-constant class pattern x image shape; loader family: N x order of molecules x template/mask options; "
    "non-trivial = more than one chunk or a mask; distinct = distinct case tuples"
)
ASSUMPTIONS = [
    "image shapes (2,2,2), (3,2,2), (4,4,4), (8,8,8) (512 features: beyond the 500-feature switch of the 'auto' solver); N up to 40",
    "components are compared only where the singular-value gap exceeds 1e-3 relative; signs of components are free; cluster label names are free",
    "scikit-learn k-means and numpy SVD are trusted",
    "added during the seeding waves: integer / float64 stacks, read-outs edited by the caller, numpy images transformed three times, boxes of (33,32,32) with 24 / 30 images (thorough: 40^3 with 48, row-chunked)",
]

SHAPES = [(2, 2, 2), (3, 2, 2), (4, 4, 4), (8, 8, 8)]


def _compositions(n):
    out = []
    for bits in itertools.product((0, 1), repeat=n - 1):
        comp, cur = [], 1
        for b in bits:
            if b:
                comp.append(cur)
                cur = 1
            else:
                cur += 1
        comp.append(cur)
        out.append(tuple(comp))
    return out


def AXES(tier):
    return {"shape": SHAPES, "N": [3, 4, 5, 8, 30, 40], "mask": ["none", "binary", "soft"], "n_components": [1, 2, 3],
            "data": ["lowrank", "fullrank"], "row_chunks": "all compositions for N<=5", "spatial_chunks": ["none", "half-one-axis", "half-all-axes"]}


def cases(tier, seed):
    out = []
    for shape in SHAPES:
        for N in (3, 4, 5, 8, 30, 40):
            for mask in ("none", "binary", "soft"):
                for nc in (1, 2, 3):
                    if nc + 1 > N or nc > int(np.prod(shape)):
                        continue
                    for dc in ("lowrank", "fullrank"):
                        if N <= 5:
                            comps = _compositions(N)
                            if tier == "quick" and not (mask == "none" and dc == "fullrank"):
                                comps = comps[:: max(1, len(comps) // 4)]
                        elif N == 8:
                            comps = [(8,), (4, 4), (1, 7), (3, 3, 2), (1,) * 8]
                        else:
                            comps = [(N,), (N // 2, N - N // 2), (7,) * (N // 7) + ((N % 7,) if N % 7 else ())]
                        for comp in comps:
                            for sp in ("none", "half-one-axis", "half-all-axes"):
                                if sp != "none" and min(shape) < 2:
                                    continue
                                if tier == "quick" and sp != "none" and not (nc == 2 and dc == "lowrank"):
                                    continue
                                out.append({"family": "fit", "shape": list(shape), "N": N, "mask": mask, "nc": nc, "data": dc,
                                            "rows": list(comp), "spatial": sp, "seed": seed})
    # boxes of realistic size (more than 32^3 voxels) with more images than any low-rank shortcut could represent exactly
    for shape, N, nc in (((33, 32, 32), 24, 2), ((33, 32, 32), 30, 3)) + ((((40, 40, 40), 48, 4),) if tier == "thorough" else ()):
        for mask in ("none", "soft"):
            # (a stack cut into row chunks makes dask's SVD of the wide matrix take minutes at this size: thorough tier only)
            for comp in ((N,), (10, N - 10)) if tier == "thorough" and N == 24 else ((N,),):
                out.append({"family": "fit", "shape": list(shape), "N": N, "mask": mask, "nc": nc, "data": "fullrank", "rows": list(comp), "spatial": "none", "seed": seed})
    # image stacks of other dtypes (raw integer voxels, float64) with every mask kind: the mask keeps its own precision
    for dt in ("int16", "uint8", "float64"):
        for mask in ("none", "binary", "soft"):
            for shape in ((3, 2, 2), (4, 4, 4)):
                for N in (4, 6):
                    out.append({"family": "fit", "shape": list(shape), "N": N, "mask": mask, "nc": 2, "data": "lowrank", "rows": [N], "spatial": "none", "seed": seed, "dtype": dt})
                    out.append({"family": "fit", "shape": list(shape), "N": N, "mask": mask, "nc": 2, "data": "fullrank", "rows": [2, N - 2], "spatial": "none", "seed": seed, "dtype": dt})
    for N in (4, 5):
        for pat in itertools.product((0, 1), repeat=N):
            if len(set(pat)) < 2:
                continue
            for shape in ((4, 4, 4), (8, 8, 8)) if tier == "thorough" else ((4, 4, 4),):
                out.append({"family": "pattern", "N": N, "pattern": list(pat), "shape": list(shape), "seed": seed})
    for N in (4, 6):
        for order in ("natural", "reversed", "interleaved"):
            for opt in ("template", "no-template", "mask"):
                for ncomp, nclus in ((2, 2), (2, 3), (3, 2)):
                    if nclus == 3 and N < 6:
                        continue
                    out.append({"family": "loader", "N": N, "order": order, "opt": opt, "seed": seed, "ncomp": ncomp, "nclus": nclus})
    return out


def _mask(kind, shape):
    if kind == "none":
        return None
    c = data.box_coords(shape)
    r = np.sqrt((c**2).sum(-1))
    r0 = max(0.9, min(shape) / 2 - 0.4)
    if kind == "binary":
        return (r <= r0).astype(np.float32)
    return (1.0 / (1.0 + np.exp((r - r0) / 0.6))).astype(np.float32)


def _stack(case):
    shape = tuple(case["shape"])
    N = case["N"]
    rng = np.random.default_rng(case["seed"] * 11 + N * 7 + int(np.prod(shape)))
    nf = int(np.prod(shape))
    if case["data"] == "lowrank":
        k = min(3, nf, N - 1)
        basis = rng.standard_normal((k, nf))
        coef = rng.standard_normal((N, k)) * np.array([5.0, 3.0, 1.5][:k])
        X = coef @ basis + 0.05 * rng.standard_normal((N, nf)) + 2.0
    else:
        X = rng.standard_normal((N, nf)) * np.linspace(1.5, 0.5, nf) + 1.0
    X = X.reshape((N,) + shape)
    dt = case.get("dtype", "float32")
    if "int" in dt:
        X = np.round((X - X.min()) / (X.max() - X.min()) * (200 if dt == "uint8" else 3000))
    return X.astype(dt)


def run_case(case):
    import dask

    dask.config.set(scheduler="synchronous")
    return {"fit": _fit, "pattern": _pattern, "loader": _loader}[case["family"]](case)


def _fit(case):
    from dask import array as da

    from acryo.classification import PcaClassifier

    shape = tuple(case["shape"])
    N, nc = case["N"], case["nc"]
    stack = _stack(case)
    m = _mask(case["mask"], shape)
    sp = case["spatial"]
    sch = {"none": shape, "half-one-axis": (max(1, shape[0] // 2),) + shape[1:], "half-all-axes": tuple(max(1, s // 2) for s in shape)}[sp]
    dstack = da.from_array(stack, chunks=(tuple(case["rows"]),) + tuple(sch))
    big = "gt32768" if int(np.prod(shape)) > 32768 else "gt500" if int(np.prod(shape)) > 500 else "le500"
    sig = lambda what: f"{ID}|fit|{what}|features-{big}|spatial={'chunked' if sp != 'none' else 'whole'}"  # noqa
    viol = []
    try:
        clf = PcaClassifier(dstack, m, n_components=nc, n_clusters=2, seed=0)
        clf.run()
    except Exception as e:  # noqa
        from vf.core import acryo_frame

        return {"nontrivial": True, "outcome": "raised", "viol": [(sig(f"raised-{type(e).__name__}"), f"N={N}, shape {shape}, row chunks {case['rows']}, spatial {sp}: {type(e).__name__}: {str(e)[:150]} at {acryo_frame(e.__traceback__)}")]}
    X = (stack * (m if m is not None else 1.0)).reshape(N, -1).astype(np.float64)
    Xc = X - X.mean(0)
    U, S, Vt = np.linalg.svd(Xc, full_matrices=False)
    sv = np.asarray(clf.pca.singular_values_, dtype=np.float64)
    if sv.shape != (nc,) or np.abs(sv - S[:nc]).max() > 1e-4 * S[0]:
        viol.append((sig("singular-values"), f"N={N}, shape {shape}, mask {case['mask']}, n_components {nc}, rows {case['rows']}: singular values {np.round(sv, 4).tolist()} vs exact {np.round(S[:nc], 4).tolist()}"))
    else:
        comp = np.asarray(clf.pca.components_, dtype=np.float64)
        tr = np.asarray(clf.get_transform(), dtype=np.float64)
        ref_tr = Xc @ Vt[:nc].T
        for i in range(nc):
            gap_ok = (i == 0 or S[i - 1] - S[i] > 1e-3 * S[0]) and (i + 1 >= len(S) or S[i] - S[i + 1] > 1e-3 * S[0]) and S[i] > 1e-6 * S[0]
            if not gap_ok:
                continue
            dot = abs(float(comp[i] @ Vt[i]))
            if dot < 1 - 1e-4:
                viol.append((sig("components"), f"component {i}: |<computed, exact>| = {dot:.6f} (N={N}, shape {shape}, rows {case['rows']})"))
                break
            sgn = np.sign(comp[i] @ Vt[i])
            if tr.shape != (N, nc) or np.abs(tr[:, i] - sgn * ref_tr[:, i]).max() > 1e-3 * S[0]:
                viol.append((sig("projection"), f"get_transform column {i} differs from Xc V^T by {np.abs(tr[:, i] - sgn * ref_tr[:, i]).max():.3g}"))
                break
        clf2 = PcaClassifier(dstack, m, n_components=nc, n_clusters=2, seed=0)
        clf2.run()
        if not np.allclose(np.asarray(clf2.pca.singular_values_), sv, rtol=1e-6, atol=0):
            viol.append((sig("not-reproducible"), f"two runs give singular values {sv.tolist()} and {np.asarray(clf2.pca.singular_values_).tolist()}"))
        lab = np.asarray(clf.labels)
        if lab.shape != (N,) or not np.issubdtype(lab.dtype, np.integer):
            viol.append((sig("labels-shape"), f"labels {lab.shape} {lab.dtype}"))
        # the other read-outs of the fitted classifier describe the same projection
        tol = 1e-4 * S[0]
        for L in ([0], [N - 1, 0], list(range(0, N, 2)), list(range(N))[::-1]):
            sub = np.asarray(clf.get_transform(labels=L), dtype=np.float64)
            if sub.shape != (len(L), nc) or np.abs(sub - tr[L]).max() > tol:
                viol.append((sig("get_transform(labels)"), f"get_transform(labels={L}) differs from get_transform()[labels] by {np.abs(sub - tr[L]).max() if sub.shape == (len(L), nc) else sub.shape:.3g} (mask {case['mask']}, N={N}, shape {shape})"))
                break
        # what a caller does with a returned projection (standardise it for a plot, flip a sign) must not change later read-outs
        # (probed for the row chunkings with at most two chunks: the aliasing of a returned array does not depend on how the rows were chunked)
        for reader in ("get_transform()", "get_transform(labels)", "transform(images)") if len(case["rows"]) <= 2 else ():
            r = clf.get_transform() if reader == "get_transform()" else (clf.get_transform(labels=list(range(N))) if reader == "get_transform(labels)" else clf.transform(dstack))
            if isinstance(r, np.ndarray) and r.flags.writeable:
                r -= r.mean(axis=0)
                r *= -3.0
            again = np.asarray(clf.get_transform(), dtype=np.float64)
            if again.shape != tr.shape or np.abs(again - tr).max() > tol:
                viol.append((sig("readout-aliased"), f"after the array returned by {reader} was modified in place, get_transform() differs from its first value by {np.abs(again - tr).max():.3g}"))
                break
        t2 = np.asarray(clf.transform(dstack), dtype=np.float64)
        if t2.shape != tr.shape or np.abs(t2 - tr).max() > tol:
            viol.append((sig("transform(input)"), f"transform(images) differs from get_transform() by {np.abs(t2 - tr).max():.3g} (mask {case['mask']})"))
        if m is not None:
            t3 = np.asarray(clf.transform(da.from_array((stack * m).astype(np.float32), chunks=dstack.chunks), mask=False), dtype=np.float64)
            if t3.shape != tr.shape or np.abs(t3 - tr).max() > tol:
                viol.append((sig("transform(masked,mask=False)"), f"transform(images*mask, mask=False) differs from get_transform() by {np.abs(t3 - tr).max():.3g}"))
        # unseen images given as a plain numpy array (what the repository's own test passes), used more than once: the answers
        # repeat and the caller's array is left alone
        if stack.dtype.kind == "f":
            nin = np.array(stack, copy=True)
            keep = nin.copy()
            for call in (1, 2, 3):
                try:
                    tn = np.asarray(clf.transform(nin) if call != 2 else clf.transform(nin, mask=True), dtype=np.float64)
                    pn = np.asarray(clf.predict(nin))
                except Exception as e:  # noqa
                    viol.append((sig("transform(numpy)"), f"call {call}: {type(e).__name__}: {e}"))
                    break
                if tn.shape != tr.shape or np.abs(tn - tr).max() > tol:
                    viol.append((sig("transform(numpy)"), f"call #{call} of transform(numpy images) differs from get_transform() by {np.abs(tn - tr).max() if tn.shape == tr.shape else tn.shape:.3g} (mask {case['mask']})"))
                    break
                if lab.shape == (N,) and not np.array_equal(pn, lab):
                    viol.append((sig("predict(numpy)"), f"call #{call} of predict(numpy images) = {pn.tolist()} but labels = {lab.tolist()}"))
                    break
                if not np.array_equal(nin, keep):
                    viol.append((sig("input-modified"), f"transform / predict changed the numpy array it was given (by up to {np.abs(nin - keep).max():.3g}, mask {case['mask']})"))
                    break
        pr = np.asarray(clf.predict(dstack))
        if lab.shape == (N,) and (pr.shape != (N,) or not np.array_equal(pr, lab)):
            viol.append((sig("predict"), f"predict(images) = {pr.tolist()} but labels = {lab.tolist()}"))
        bases = np.asarray(clf.get_bases())
        if bases.shape != (nc,) + shape or np.abs(bases.reshape(nc, -1) - comp).max() > 1e-6:
            viol.append((sig("get_bases"), f"get_bases() shape {bases.shape} / differs from components_"))
        parts = clf.split_clusters()
        if lab.shape == (N,):
            for ci, part in enumerate(parts):
                want = stack[lab == ci]
                got = np.asarray(part)
                if got.shape != want.shape or np.abs(got - want).max() > 0:
                    viol.append((sig("split_clusters"), f"cluster {ci}: split_clusters() does not hold the images labelled {ci}"))
                    break
    nontrivial = len(case["rows"]) > 1 or sp != "none" or case["mask"] != "none"
    return {"nontrivial": bool(nontrivial), "outcome": f"fit|{big}|{'viol' if viol else 'ok'}", "viol": viol}


def _third_particle(shape):
    k = min(shape) / 12.0
    return data.particle_box(shape, blobs=[(1.0, (0, 0, 0), max(0.8, 1.5 * k)), (0.8, (-2.0 * k, -2.0 * k, 0), max(0.7, 1.0 * k))])


def _two_particles(shape):
    k = min(shape) / 12.0
    a = data.particle_box(shape, blobs=[(1.0, (0, 0, 0), max(0.8, 1.5 * k)), (0.8, (2.0 * k, 0, 0), max(0.7, 1.0 * k))])
    b = data.particle_box(shape, blobs=[(1.0, (0, 0, 0), max(0.8, 1.5 * k)), (0.8, (0, -2.0 * k, 2.0 * k), max(0.7, 1.0 * k))])
    return a, b


def _pattern(case):
    from dask import array as da

    from acryo.classification import PcaClassifier

    shape = tuple(case["shape"])
    pat = case["pattern"]
    N = case["N"]
    rng = np.random.default_rng(case["seed"] + 3)
    a, b = _two_particles(shape)
    stack = np.stack([(a if p == 0 else b) + 0.02 * rng.standard_normal(shape).astype(np.float32) for p in pat]).astype(np.float32)
    viol = []
    for rows in ((N,), (1,) * N, (2, N - 2)):
        clf = PcaClassifier(da.from_array(stack, chunks=(rows,) + shape), None, n_components=2, n_clusters=2, seed=0).run()
        lab = np.asarray(clf.labels)
        ok = len(lab) == N and all((lab[i] == lab[j]) == (pat[i] == pat[j]) for i in range(N) for j in range(N))
        if not ok:
            viol.append((f"{ID}|pattern|partition-not-recovered", f"planted classes {pat}, labels {lab.tolist()} (row chunks {rows}, shape {shape})"))
            break
    return {"nontrivial": True, "outcome": f"pattern|{'viol' if viol else 'ok'}", "viol": viol}


def _loader(case):
    import polars as pl

    from acryo import Molecules, SubtomogramLoader

    N, order, opt = case["N"], case["order"], case["opt"]
    box = (8, 8, 8)
    rng = np.random.default_rng(case["seed"] + 1)
    a, b = _two_particles(box)
    ncomp, nclus = case.get("ncomp", 2), case.get("nclus", 2)
    c3 = _third_particle(box)
    planted = [i % nclus for i in range(N)] if order != "interleaved" else [(i // 2) % nclus for i in range(N)]
    tomo = (0.02 * rng.standard_normal((12, 12, 10 * N + 4))).astype(np.float32)
    pos = []
    for i in range(N):
        c = np.array([5.5, 5.5, 5.5 + 10 * i])
        tomo[2:10, 2:10, 2 + 10 * i:10 + 10 * i] += (a, b, c3)[planted[i]]
        pos.append(c)
    idx = list(range(N))
    if order == "reversed":
        idx = idx[::-1]
    elif order == "interleaved":
        idx = idx[::2] + idx[1::2]
    mole = Molecules(np.array(pos)[idx], features={"uid": pl.Series(idx, dtype=pl.Int64), "tag": [f"t{i}" for i in idx]})
    ld = SubtomogramLoader(tomo, mole, order=1, output_shape=box)
    kw = {}
    if opt == "template":
        kw["template"] = ((a + b + (c3 if nclus == 3 else 0)) / nclus).astype(np.float32)
    if opt == "mask":
        kw["mask"] = _mask("soft", box)
    res = ld.classify(n_components=ncomp, n_clusters=nclus, seed=0, **kw)
    out = res.loader.molecules
    viol = []
    sig = lambda what: f"{ID}|loader.classify|{what}"  # noqa
    f = out.features
    if f["uid"].to_list() != idx or f["tag"].to_list() != [f"t{i}" for i in idx] or not np.array_equal(out.pos, mole.pos) or not np.allclose(out.quaternion(), mole.quaternion()):
        viol.append((sig("molecules-changed"), "positions / orientations / features changed or reordered"))
    elif "cluster" not in f.columns or len(f["cluster"]) != N or not f["cluster"].dtype.is_integer():
        viol.append((sig("label-column"), f"columns {f.columns}"))
    else:
        lab = f["cluster"].to_list()
        want = [planted[i] for i in idx]
        if not all((lab[i] == lab[j]) == (want[i] == want[j]) for i in range(N) for j in range(N)):
            viol.append((sig("labels-not-in-molecule-order"), f"molecule order {idx}, planted classes in that order {want} ({nclus} clearly separated groups, n_components={ncomp}, n_clusters={nclus}), labels {lab}"))
        if res.classifier.n_clusters != nclus or res.classifier.n_components != ncomp:
            viol.append((sig("parameters-not-passed"), f"asked n_components={ncomp}, n_clusters={nclus}; classifier ran with {res.classifier.n_components}, {res.classifier.n_clusters}"))
    if ld.molecules.features.columns != ["uid", "tag"]:
        viol.append((sig("parent-modified"), "classify added a column to the loader it was called on"))
    return {"nontrivial": True, "outcome": f"loader|{'viol' if viol else 'ok'}", "viol": viol}
