"""C04 -- translational alignment returns the true displacement.

E1: analytic particles (sums of Gaussians evaluated at displaced coordinates, so the
sub-volume is an exact displaced copy with no interpolation error), the full cube of
per-axis displacements including all faces and corners of the permitted range,
x box shapes x models x masks x cutoffs x tilt models.
"""
from __future__ import annotations

import itertools

import numpy as np

from vf import data

ID = "C04"
LEVEL = "exploration"
DESIGN_REF = "DESIGN.md section 3, C04"
RULE = (
    "full product shape x max_shifts table x model x mask x cutoff x tilt x displacement cube "
    "(per-axis values -M, -M+0.3, -0.5, 0, 0.25, M-0.7, M; quick: -M, -0.5, 0.25, M); "
    "non-trivial = displacement non-zero; boundary = some axis exactly at +-M"
)
ASSUMPTIONS = [
    "particles are analytic sums of Gaussians whose density at the box faces stays below ~1% of the peak after displacement "
    "(non-degenerate, compactly supported inside the box); box sides 8..14",
    "FSC is evaluated on the broadband particle class only (its unweighted mean over shells is arbitrary on shells holding only rounding noise)",
    "tolerances from the statement: 0.1 px (ZNCC, NCC, PCC unmasked), 0.5 px (FSC, or soft mask)",
    "displacements on a finite lattice that contains the range boundary, its corners and off-grid interior points",
    "wide-range family: max_shifts = box//2 + 1 on (12,12,12) and (10,12,11) with |d| <= 3, so that the periodic image of the displaced copy is outside the range",
    "added during the seeding waves: ranges wider than half the box, ranges that are zero on some axes, intensity scale, the fractional range 1.95 on an 11^3 box in the quick tier",
]

MODELS = ["ZNCC", "NCC", "PCC", "FSC"]
# max_shifts per axis length (two tables)
# max_shifts per axis length, chosen so that rho = (n-1)/2 - M >= 3 px remains for the particle:
# a wider range would push the displaced density into the box faces (truncated copy = not the
# statement's 'copy of the template displaced by d')
MTAB = [
    {8: 0.5, 9: 1.0, 10: 1.5, 11: 2.0, 12: 2.5, 14: 3.0},
    {8: 0.4, 9: 0.8, 10: 1.3, 11: 1.95, 12: 2.2, 14: 2.95},
]
FRACS = [(0.0, 0.0, 0.0), (0.8, -0.45, 0.3), (-0.55, 0.7, -0.85), (0.2, 0.95, 0.75)]
CLASSES = {"smooth": (1.0, [1.0, 0.8, 0.6, 0.5], [1.0, 0.85, 0.95, 0.9]), "broadband": (0.75, [1.0, 0.8, -0.5, 0.6], [1.0, 0.9, 1.1, 0.95])}


def _shapes(tier):
    if tier == "quick":
        return [(8, 8, 8), (9, 9, 9), (8, 10, 12), (9, 8, 11)]
    return [(8, 8, 8), (9, 9, 9), (8, 10, 12), (9, 8, 11), (12, 12, 12), (11, 11, 11), (10, 12, 14)]


def _dvals(M, tier):
    if tier == "quick":
        v = [-M, -0.5, 0.25, M]
    else:
        v = [-M, -M + 0.3, -0.5, 0.0, 0.25, M - 0.7, M]
    return [x for x in v if abs(x) <= M + 1e-12]


def AXES(tier):
    return {
        "shape": _shapes(tier), "max_shifts_table": [0, 1], "model": MODELS, "class": list(CLASSES),
        "mask": ["none", "soft"], "cutoff": [None, 0.5], "tilt": ["none", "y60:I", "y60:gen0"],
        "displacement_per_axis": 4 if tier == "quick" else 7,
    }


def cases(tier, seed):
    out = []
    for shape in _shapes(tier):
        for mt in (0, 1):
            M = [MTAB[mt][n] for n in shape]
            for model in MODELS:
                for cls in CLASSES:
                    if model == "FSC" and cls != "broadband":
                        continue
                    if model != "FSC" and cls == "broadband" and tier == "quick" and mt == 1:
                        continue
                    for mask in ("none", "soft"):
                        for cutoff in (None, 0.5):
                            for tilt in ("none", "y60:I", "y60:gen0"):
                                if model == "FSC" and (cutoff is not None and tilt != "none"):
                                    continue  # FSC is the slow model: cutoff and tilt varied one at a time
                                if tier == "quick" and mask == "soft" and (cutoff is not None or tilt == "y60:gen0"):
                                    continue
                                dv = [_dvals(m, tier) for m in M]
                                for d in itertools.product(*dv):
                                    out.append({"shape": list(shape), "M": M, "model": model, "cls": cls,
                                                "mask": mask, "cutoff": cutoff, "tilt": tilt, "d": list(d)})
    if tier == "quick":
        # the fractional range 1.95 on every axis of an odd box (in the thorough tier through the shape list): the integer
        # search has to reach ceil(1.95) for the refinement window to contain a peak at the edge of the range
        shape = (11, 11, 11)
        M = [MTAB[1][n] for n in shape]
        for model in MODELS:
            if model == "FSC":
                continue
            for cls, tilt in (("smooth", "none"), ("broadband", "y60:I")):
                for d in itertools.product(*[_dvals(m, tier) for m in M]):
                    out.append({"shape": list(shape), "M": M, "model": model, "cls": cls, "mask": "none", "cutoff": None, "tilt": tilt, "d": list(d)})
    # a search range wider than half the box (small binned boxes with a generous range): the displacement itself stays
    # moderate, so that the periodic image of the copy lies outside the range and the answer is unique
    wide = (-3.0, 0.25, 2.0) if tier == "quick" else (-3.0, -2.0, 0.25, 2.0, 3.0)
    for shape in ((12, 12, 12), (10, 12, 11)):
        M = [float(n // 2 + 1) for n in shape]
        for model in MODELS:
            for cls in CLASSES:
                if model == "FSC" and cls != "broadband":
                    continue
                for tilt in ("none", "y60:I"):
                    if model == "FSC" and tilt != "none":
                        continue
                    for d in itertools.product(wide, repeat=3):
                        out.append({"shape": list(shape), "M": M, "model": model, "cls": cls, "mask": "none", "cutoff": None, "tilt": tilt, "d": list(d), "wide": True})
    # intensity scale: density maps in small or large physical units (template and sub-volume scaled together, and only one of them)
    for shape in ((9, 9, 9), (8, 10, 12)):
        M = [MTAB[0][n] for n in shape]
        for model in MODELS:
            for cls in CLASSES:
                if model == "FSC" and cls != "broadband":
                    continue
                for gain in ((1e-4, 1e-4), (1e4, 1e4), (1.0, 1e-4), (1e3, 1.0)):
                    for d in itertools.product(*[[-m, 0.25, m] for m in M]) if tier == "thorough" else [tuple(-m for m in M), (0.25, -0.5, 0.25), tuple(M)]:
                        out.append({"shape": list(shape), "M": M, "model": model, "cls": cls, "mask": "none", "cutoff": None, "tilt": "none", "d": [float(x) for x in d], "gain": list(gain)})
    # ranges that are zero along some axes (search in a plane or along a line)
    for shape in ((10, 10, 10), (9, 10, 11)):
        for M, ds in (((0.0, 2.0, 2.0), [(0, -2, 0.25), (0, 1.5, -0.5), (0, 0, 2)]), ((1.5, 0.0, 0.0), [(-1.5, 0, 0), (0.25, 0, 0)]), ((0.0, 0.0, 2.5), [(0, 0, -2.5), (0, 0, 0.3)])):
            for model in MODELS:
                for cls in CLASSES:
                    if model == "FSC" and cls != "broadband":
                        continue
                    for d in ds:
                        out.append({"shape": list(shape), "M": list(M), "model": model, "cls": cls, "mask": "none", "cutoff": None, "tilt": "none", "d": [float(x) for x in d], "partial": True})
    return out


def blobs_for(shape, M, cls):
    sig, amps, sfac = CLASSES[cls]
    smax = sig * max(sfac)
    out = []
    for a, s, fr in zip(amps, sfac, FRACS):
        off = []
        for n, m, f in zip(shape, M, fr):
            rho = (n - 1) / 2 - m
            spread = max(0.3, rho - 3.0 * smax)
            off.append(f * spread)
        out.append((a, tuple(off), sig * s))
    return out


def soft_mask(shape, M):
    """Soft ellipsoid that covers the centred particle generously and clips only the
    outer tail of the displaced density (semi-axis = half box - 0.75 px, width 0.5 px)."""
    c = data.box_coords(shape)
    semi = (np.asarray(shape) - 1) / 2 - 0.75
    r = np.sqrt(((c / semi) ** 2).sum(-1))
    return (1.0 / (1.0 + np.exp((r - 1.0) * semi.min() / 0.5))).astype(np.float32)


_CACHE = {}


def _model(case):
    key = (tuple(case["shape"]), tuple(case["M"]), case["model"], case["cls"], case["mask"], case["cutoff"], case["tilt"], tuple(case.get("gain", (1.0, 1.0))))
    if key in _CACHE:
        return _CACHE[key]
    if len(_CACHE) > 2:
        _CACHE.clear()
    from acryo import alignment as al

    shape = tuple(case["shape"])
    blobs = blobs_for(shape, case["M"], case["cls"])
    tmpl = data.particle_box(shape, blobs=blobs)
    cls = {"ZNCC": al.ZNCCAlignment, "NCC": al.NCCAlignment, "PCC": al.PCCAlignment, "FSC": al.FSCAlignment}[case["model"]]
    kw = {}
    if case["mask"] == "soft":
        kw["mask"] = soft_mask(shape, case["M"])
    if case["cutoff"] is not None:
        kw["cutoff"] = case["cutoff"]
    quat = None
    if case["tilt"] != "none":
        kw["tilt"] = (-60.0, 60.0)
        rn = {"I": "cube0", "gen0": "gen0"}[case["tilt"].split(":")[1]]
        quat = data.scipy_rot(rn).as_quat().astype(np.float32)
    tmpl = (tmpl * case.get("gain", (1.0, 1.0))[0]).astype(np.float32)
    m = cls(tmpl, **kw)
    _CACHE[key] = (m, blobs, tmpl, quat)
    return _CACHE[key]


def fourier_shift(img, shift):
    f = np.fft.fftn(img.astype(np.float64))
    for ax, s in enumerate(shift):
        k = np.fft.fftfreq(img.shape[ax])
        ph = np.exp(-2j * np.pi * k * s)
        f = f * ph.reshape([-1 if i == ax else 1 for i in range(3)])
    return np.fft.ifftn(f).real


def run_case(case):
    model, blobs, tmpl, quat = _model(case)
    shape = tuple(case["shape"])
    d = np.asarray(case["d"], dtype=np.float64)
    M = np.asarray(case["M"], dtype=np.float64)
    img = (case.get("gain", (1.0, 1.0))[1] * (3.0 * data.particle_box(shape, shift=d, blobs=blobs) + 0.5)).astype(np.float32)
    res = model.align(img, tuple(float(m) for m in M), quaternion=quat)
    shift = np.asarray(res.shift, dtype=np.float64)
    err = np.abs(shift - d)
    mname = case["model"]
    loose = mname == "FSC" or case["mask"] == "soft"
    tol = 0.5 if loose else 0.1
    boundary = bool(np.any(np.isclose(np.abs(d), M)))
    where = "boundary" if boundary else "interior"
    viol = []
    if case.get("wide"):
        where = "wide-range"
    if case.get("partial"):
        where = "partial-range"
    if case.get("gain"):
        where = "intensity-scale"
    sig = lambda kind: f"{ID}|{mname}|{kind}|{where}|mask={case['mask']}"  # noqa
    if not np.all(np.isfinite(shift)):
        viol.append((sig("non-finite"), f"shift={shift.tolist()}"))
    elif err.max() > tol + 1e-6:
        rel = err.max() / tol
        bucket = "err<=1.2tol" if rel <= 1.2 + 1e-6 else ("err<=1.6tol" if rel <= 1.6 + 1e-6 else ("err<=2tol" if rel <= 2 + 1e-6 else "err>2tol"))
        viol.append((sig("displacement") + "|" + bucket, f"d={d.tolist()} M={M.tolist()} shape={shape}: returned shift {np.round(shift, 3).tolist()} (error {err.max():.3f} px > {tol})"))
    q = np.asarray(res.quat, dtype=np.float64)
    if abs(abs(q[3]) - 1.0) > 1e-6 or np.abs(q[:3]).max() > 1e-6:
        viol.append((sig("rotation-not-identity"), f"quat={q.tolist()}"))
    score = float(res.score)
    integer_d = bool(np.all(d == np.round(d)))
    if mname == "ZNCC" and case["mask"] == "none" and case["tilt"] == "none" and not score >= 0.9:
        viol.append((sig("score"), f"ZNCC score {score:.3f} < 0.9 for an exact displaced copy (d={d.tolist()})"))
    if mname == "FSC" and case["mask"] == "none" and case["tilt"] == "none" and integer_d and not score >= 0.9:
        viol.append((sig("score"), f"FSC score {score:.3f} < 0.9 for an integer-displaced copy (d={d.tolist()})"))
    # sign convention, independent of the error bound: shifting the sub-volume by -shift superimposes it on the template
    if np.all(np.isfinite(shift)) and not viol and np.abs(d).max() >= 0.5:
        b = tmpl.astype(np.float64) - tmpl.mean()

        def cc_of(im):
            a = im - im.mean()
            return float((a * b).sum() / np.sqrt((a * a).sum() * (b * b).sum()))

        cc_minus = cc_of(fourier_shift(img, -shift))
        cc_plus = cc_of(fourier_shift(img, shift))
        if not (cc_minus > cc_plus and cc_minus > (0.6 if loose else 0.95)):
            viol.append((sig("sign-convention"), f"corr(shift(img, -shift), template) = {cc_minus:.3f}, with +shift {cc_plus:.3f} (d={d.tolist()}, shift={np.round(shift,3).tolist()})"))
    return {
        "nontrivial": bool(np.any(d != 0)),
        "outcome": f"{mname}|{where}|{'loose' if loose else 'tight'}|{'viol' if viol else 'ok'}",
        "viol": viol,
        "metrics": {f"err_{mname}_{where}_{'loose' if loose else 'tight'}": float(err.max()) if np.all(np.isfinite(err)) else 99.0},
    }
