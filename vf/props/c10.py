"""C10 -- results do not depend on dask scheduling, threading or chunking.

Four sub-checks, all on the real code (DESIGN.md section 3, C10):
 (a) task orders (E3): loader operations under every dask task order (2-3 molecules: all linear extensions of
     the library-code tasks) or every order with <= d deviations from dask's own priority (larger graphs);
 (b) thread interleavings (E4): 2-3 threads sharing one alignment model (and the memoised helpers), all
     interleavings at CPython's GIL switch points inside the shared-state closure, iterative preemption bounding;
 (c) call histories on memoised state (E2): every sequence up to depth 3 over an alphabet of calls that share the
     lru_cache'd helpers, plus sequences that overflow each cache; every result must equal the fresh-process result;
 (d) chunkings / array kinds / stock schedulers / declared shapes of lazily built arrays (E1).
The oracle is always equality with the same call executed alone, sequentially, on fresh objects with empty caches.
"""
from __future__ import annotations

import hashlib
import itertools
import os

import numpy as np

from vf import data

ID = "C10"
LEVEL = "model_checking"
ENGINE = "E3 dask schedule explorer + E4 thread interleaving explorer + E2 call histories + E1 configurations"
TECHNIQUE = ("stateless exhaustive exploration of dask task orders (all linear extensions / deviation-bounded) and of thread interleavings "
             "(iterative preemption bounding at GIL switch points inside an AST-derived shared-state closure) on the real implementation, "
             "plus exhaustive call histories on memoised helpers; oracle = the same call executed alone on fresh state")
DESIGN_REF = "DESIGN.md section 3, C10 and section 2 (E3, E4)"
RULE = (
    "(a) harness = loader operation x model x molecule count; executions = all task orders (N<=3) or <= d deviations; "
    "(b) harness = shared model x body pair/triple x backend sharing; executions = all interleavings with <= bound preemptions; "
    "(c) all call sequences to depth 3 over the memoised-helper alphabet + cache-overflow sequences; (d) chunking / scheduler / declared-shape product; "
    "states = executions explored, transitions = scheduling decisions taken; non-trivial = an execution that deviates from the default order"
)
LEVEL_TEXT = ("every execution inside the stated bounds is run on the real code under a scheduler the harness owns; each is compared with the "
              "sequential reference; counterexamples are replayed twice from their recorded choice list before being reported")
ASSUMPTIONS = [
    "GIL-granular interleavings of CPython 3.12 at its own switch points, only inside the census closure; C extensions (numpy, scipy, polars) are trusted to be re-entrant",
    "task bodies of at most 4 molecules; preemption bound 1 in the quick tier (2 threads), 2 in the thorough tier (2 and 3 threads)",
    "plumbing tasks of the dask graph (aliases, data nodes, identity/finalize helpers) are pure and are not permuted; the unreduced enumeration is cross-checked on 2 molecules",
    "only the numpy backend exists in this sandbox (cupy paths unreachable)",
    "uuid.uuid4 is replaced by a counter while a body runs under the controlled scheduler: dask names delayed objects with uuid4 and breaks optimisation / ordering ties on those names, which would make recorded schedules unreplayable",
    "real thread pools ('threads' scheduler with 1..16 workers) are run free for equality only (confirmation, not exploration)",
]


# ------------------------------------------------------------------ shared helpers
def reset_shared_state():
    """what a fresh process would have: empty lru_caches, default backend name"""
    import sys

    for name, mod in list(sys.modules.items()):
        if name == "acryo" or name.startswith("acryo."):
            for v in list(vars(mod).values()):
                cc = getattr(v, "cache_clear", None)
                if callable(cc):
                    try:
                        cc()
                    except Exception:
                        pass
    from acryo.backend import Backend

    Backend._default = "numpy"


def canon(x):
    """canonical, hashable digest of an observation"""
    h = hashlib.sha1()

    def feed(o):
        if isinstance(o, np.ndarray):
            h.update(str(o.dtype).encode() + str(o.shape).encode() + np.ascontiguousarray(o).tobytes())
        elif isinstance(o, (list, tuple)):
            h.update(b"[")
            for i in o:
                feed(i)
            h.update(b"]")
        elif isinstance(o, dict):
            for k in sorted(o, key=str):
                h.update(str(k).encode())
                feed(o[k])
        elif isinstance(o, (float, np.floating)):
            h.update(np.float64(o).tobytes())
        else:
            h.update(repr(o).encode())

    feed(x)
    return h.hexdigest()[:16]


def _cls(name):
    from acryo import alignment as al

    return {"ZNCC": al.ZNCCAlignment, "NCC": al.NCCAlignment, "PCC": al.PCCAlignment, "FSC": al.FSCAlignment}[name]


BOX = (6, 7, 5)  # non-cubic on purpose: shape-dependent state shared between tasks must not leak
TILT = (-60.0, 60.0)


def _universe(n, seed=0, chunks=None):
    from scipy.spatial.transform import Rotation

    from acryo import Molecules

    rng = np.random.default_rng(100 + seed)
    tomo = rng.standard_normal((16, 17, 18)).astype(np.float32)
    pos = np.array([[6.0, 6.5, 7.0], [8.5, 9.0, 6.0], [7.0, 8.0, 10.5], [9.0, 6.0, 9.0]])[:n]
    names = ["gen0", "cube0", "gen1", "cube9"][:n]
    rot = Rotation.from_matrix(np.array([data.rot_matrix(x) for x in names]))
    mole = Molecules(pos, rot, features={"uid": list(range(n)), "g": [i % 2 for i in range(n)]})
    if chunks is not None:
        from dask import array as da

        tomo = da.from_array(tomo, chunks=chunks)
    tm = data.particle_box(BOX, blobs=[(a, tuple(0.4 * c for c in cen), 0.8 * s) for a, cen, s in data._BLOBS])
    return tomo, mole, tm


# ------------------------------------------------------------------ (a) task orders
A_HARNESSES = []
for _op in ("asnumpy", "average", "apply", "apply-inplace", "average_split"):
    for _n in (2, 3, 4):
        A_HARNESSES.append({"op": _op, "model": "-", "n": _n})
for _model in ("ZNCC", "PCC", "FSC"):
    for _op in ("align", "score", "landscape"):
        for _n in (2, 3, 4):
            if _model == "FSC" and _n == 4:
                continue
            A_HARNESSES.append({"op": _op, "model": _model, "n": _n})
for _n in (2, 3):
    A_HARNESSES.append({"op": "align-rot", "model": "ZNCC", "n": _n})
    A_HARNESSES.append({"op": "align_multi_templates", "model": "ZNCC", "n": _n})
    A_HARNESSES.append({"op": "batch.align", "model": "ZNCC", "n": _n})
    A_HARNESSES.append({"op": "group.average", "model": "-", "n": _n + 1})
A_HARNESSES.append({"op": "average-chunked", "model": "-", "n": 3})
# the simulated loader: projections with noise, back-projected per molecule (its noise must be a function of the molecule, not of the run)
A_HARNESSES.append({"op": "mock.asnumpy", "model": "-", "n": 1})
A_HARNESSES.append({"op": "classify", "model": "-", "n": 4})


def _centred_max(img):
    img -= img.mean()
    return float(img.max())


def _doubled_sum(img):
    img *= 2.0
    return float(img.sum())


def _a_body(h):
    """returns a zero-argument callable that builds everything fresh and returns the observation"""
    op, mname, n = h["op"], h["model"], h["n"]

    def body():
        import polars as pl  # noqa

        from acryo import BatchLoader, SubtomogramLoader

        reset_shared_state()
        tomo, mole, tm = _universe(n, chunks=(8, 9, 6) if op == "average-chunked" else None)
        ld = SubtomogramLoader(tomo, mole, order=1, output_shape=BOX)
        if op == "asnumpy":
            return np.asarray(ld.asnumpy())
        if op in ("average", "average-chunked"):
            return np.asarray(ld.average())
        if op == "apply":
            return ld.apply([np.mean, np.max], schema=["m", "x"]).to_numpy()
        if op == "apply-inplace":
            # user functions that work in place on what they are given (centring, scaling): each must see its own sub-volume
            return ld.apply([_centred_max, _doubled_sum, np.mean], schema=["cm", "ds", "m"]).to_numpy()
        if op == "average_split":
            return np.asarray(ld.average_split(n_set=2, seed=1))
        if op == "align":
            out = ld.align(tm, max_shifts=1.2, alignment_model=_cls(mname), tilt=TILT)
            return [out.molecules.pos, out.molecules.quaternion(), out.molecules.features.select(["score", "align-dz", "align-dy", "align-dx"]).to_numpy()]
        if op == "align-rot":
            out = ld.align(tm, max_shifts=1.2, alignment_model=_cls(mname), rotations=((0, 0), (0, 0), (20, 20)), tilt=TILT)
            return [out.molecules.pos, out.molecules.quaternion(), out.molecules.features.select(["score"]).to_numpy()]
        if op == "align_multi_templates":
            out = ld.align_multi_templates([tm, tm[::-1].copy()], max_shifts=1.2, alignment_model=_cls(mname))
            return [out.molecules.pos, out.molecules.features.select(["score", "labels"]).to_numpy()]
        if op == "score":
            return np.asarray(ld.score([tm, tm[::-1].copy()], alignment_model=_cls(mname), tilt=TILT))
        if op == "landscape":
            return np.asarray(ld.construct_landscape(tm, max_shifts=1.0, alignment_model=_cls(mname), tilt=TILT).compute())
        if op == "batch.align":
            tomo2, _, _ = _universe(n, seed=1)
            b = BatchLoader(order=1, output_shape=BOX)
            b.add_tomogram(tomo, mole, image_id=0)
            b.add_tomogram(tomo2, mole.subset(slice(0, 2)), image_id=1)
            out = b.align(tm, max_shifts=1.2, alignment_model=_cls(mname), tilt=TILT)
            return [out.molecules.pos, out.molecules.features.select(["score", "image-id"]).to_numpy()]
        if op.startswith("mock."):
            from acryo import MockLoader

            mk = MockLoader(tm[:5, 1:6, :5].copy(), mole.translate([-7.0, -7.5, -8.0]), noise=0.4, degrees=[-45.0, -15.0, 15.0, 45.0], order=1)
            return np.asarray(mk.asnumpy()) if op == "mock.asnumpy" else np.asarray(mk.average())
        if op == "group.average":
            avg = ld.groupby("g").average()
            return [np.asarray(avg[k]) for k in sorted(avg, key=str)]
        if op == "classify":
            res = ld.classify(tm, n_components=2, n_clusters=2, seed=0)
            return [np.asarray(res.classifier.pca.singular_values_), np.asarray(res.loader.molecules.features["cluster"].to_numpy())]
        raise KeyError(op)

    return body


def _run_a(case):
    import dask

    from vf import sched_dask as sd

    h = case["harness"]
    body = _a_body(h)
    dask.config.set(scheduler="synchronous")
    ref = body()
    ref_key = canon(ref)
    mode = case["mode"]
    viol = []
    fallback = case.get("fallback", "d2")

    def sweep(bound, cap):
        outcomes = {}
        nexec = ndev = ntrans = maxpoints = 0
        example = None
        for choices, s, res in sd.explore(body, bound=bound, max_executions=cap, reduce_pure=case.get("reduce", True)):
            nexec += 1
            ntrans += len(s.trace)
            maxpoints = max(maxpoints, len(s.points))
            ndev += 1 if any(c != d0 for c, d0 in zip(choices, s.defaults)) else 0
            key = f"raised-{type(res[1]).__name__}" if res[0] == "raised" else canon(res[1])
            outcomes[key] = outcomes.get(key, 0) + 1
            if key != ref_key and example is None:
                example = (choices, s.trace, key, res)
        return outcomes, nexec, ndev, ntrans, maxpoints, example, bool(getattr(sd.explore, "capped", False))

    if mode == "all":
        outcomes, nexec, ndev, ntrans, maxpoints, example, capped = sweep(None, case.get("cap", 700))
        completed = "all-orders"
        if capped and example is None:
            # too many linear extensions: fall back to the deviation-bounded space, which is then explored completely
            o2, n2, d2, t2, m2, example, capped = sweep(int(fallback[1:]), 20000)
            for k, v in o2.items():
                outcomes[k] = outcomes.get(k, 0) + v
            nexec, ndev, ntrans, maxpoints = nexec + n2, ndev + d2, ntrans + t2, max(maxpoints, m2)
            completed = f"deviations<={fallback[1:]}" + ("(capped)" if capped else "")
    else:
        outcomes, nexec, ndev, ntrans, maxpoints, example, capped = sweep(int(mode[1:]), case.get("dcap", 20000))
        completed = f"deviations<={mode[1:]}" + ("(capped)" if capped else "")
    capped = bool(getattr(sd.explore, "capped", False))
    if example is not None:
        choices, trace, key, res = example
        # R3: replay the recorded schedule twice; identical observations or it is not a verdict
        r1 = sd.run_with(choices, body, reduce_pure=case.get("reduce", True))[1]
        r2 = sd.run_with(choices, body, reduce_pure=case.get("reduce", True))[1]
        k1 = f"raised-{type(r1[1]).__name__}" if r1[0] == "raised" else canon(r1[1])
        k2 = f"raised-{type(r2[1]).__name__}" if r2[0] == "raised" else canon(r2[1])
        if k1 == ref_key and k2 == ref_key:
            # the deviation cannot be reproduced at all from the recorded schedule: nondeterminism we do not own (R3)
            return {"harness_error": f"schedule {choices} of harness {h} does not replay: {key} then {k1} / {k2} (reference {ref_key})"}
        reproducible = (k1 == k2 == key)
        what = key if key.startswith("raised") else "result-differs"
        msg = (f"{h['op']} ({h['model']}, {h['n']} molecules) under task order {trace} "
               + (f"raised {type(res[1]).__name__}: {res[1]}" if res[0] == "raised" else "differs from the sequential result")
               + f"; choices {choices}; {len(outcomes)} distinct outcomes over {nexec} orders"
               + ("" if reproducible else "; replaying the schedule again deviates from the reference too, but not bit-identically (the wrong value itself depends on leftover state)"))
        viol.append((f"{ID}|task-order|{h['op']}|{what}", msg))
    return {"nontrivial": nexec > 1, "outcome": f"a|{h['op']}|{completed}|{len(outcomes)}-outcomes", "viol": viol,
            "metrics": {"a_executions": nexec, "a_executions_deviating": ndev, "a_tasks_executed": ntrans, "a_max_choice_points": maxpoints, "a_capped": float(capped)},
            "schedule": example[0] if example else None}


# ------------------------------------------------------------------ (b) thread interleavings
def _b_harnesses(tier):
    out = []
    pairs = [("align", "align"), ("score", "score"), ("align", "score"), ("landscape", "align"), ("masked_difference", "score"),
             ("template_input", "align"), ("template_input", "template_input")]
    for model in ("ZNCC", "PCC") + (("FSC",) if tier == "thorough" else ()):
        for rot in (False, True):
            for shared_backend in (False, True):
                for bodies in pairs:
                    if rot and bodies not in (("align", "align"), ("align", "score"), ("template_input", "align")):
                        continue
                    if model != "ZNCC" and bodies[0] == "masked_difference":
                        pass
                    out.append({"kind": "model", "model": model, "rot": rot, "shared_backend": shared_backend, "bodies": list(bodies), "level": 1,
                                "bound": 1 if tier == "quick" else 2})
        out.append({"kind": "model", "model": model, "rot": False, "shared_backend": False, "bodies": ["align", "score", "align"], "level": 1, "bound": 1 if tier == "quick" else 2})
        out.append({"kind": "model", "model": model, "rot": False, "shared_backend": False, "bodies": ["align+score", "score+align"], "level": 1, "bound": 1 if tier == "quick" else 2})
        # two preemptions: a thread that is overtaken while it updates per-molecule state of the shared model, and a second thread that
        # is itself interrupted between two uses of that state (one molecule = several calls: rotations, or align followed by score)
        out.append({"kind": "model", "model": model, "rot": False, "shared_backend": False, "bodies": ["score", "score+score"], "level": 1, "bound": 2})
        out.append({"kind": "model", "model": model, "rot": True, "shared_backend": False, "bodies": ["score", "align"], "level": 1, "bound": 2})
    # the default-backend global
    out.append({"kind": "backend-global", "bodies": ["using_backend", "construct"], "level": 1, "bound": 2})
    # memoised helpers, colliding and non-colliding keys (closure level 2: callers of lru_cache'd functions)
    for a, b in (("mask:5:60", "mask:5:60"), ("mask:5:60", "mask:5:40"), ("mask:5:60", "mask:6:60"), ("lowpass:5", "lowpass:5"), ("lowpass:5", "lowpass:6"),
                 ("fsc:5", "fsc:5"), ("mesh", "mesh"), ("mask:5:60", "lowpass:5"), ("zncc:5", "zncc:5")):
        out.append({"kind": "helpers", "bodies": [a, b], "level": 2, "bound": 1})
    return out


def _b_setup(h):
    """returns (make_bodies, solo_reference) ; make_bodies() -> list of callables sharing state"""
    from scipy.spatial.transform import Rotation

    from acryo.backend import Backend

    rng = np.random.default_rng(7)
    shape = (5, 5, 5)
    imgs = [rng.standard_normal(shape).astype(np.float32) for _ in range(4)]
    # every thread aligns its own molecule: distinct orientations (and distinct quaternion objects), so that per-molecule
    # state kept on the shared model (a wedge memo keyed by value or by identity) is observable
    quats = [data.scipy_rot(n).as_quat().astype(np.float32) for n in ("gen0", "gen1", "cube5", "gen3")]
    pos = np.zeros(3, dtype=np.float32)

    if h["kind"] == "model":
        tm = rng.standard_normal(shape).astype(np.float32)
        kw = {"tilt": (-60.0, 60.0)}
        if h["rot"]:
            kw["rotations"] = ((0, 0), (0, 0), (30, 30))

        def mk_call(name, i, model, be):
            quat = quats[i % len(quats)]

            def one(nm, j):
                if nm == "align":
                    r = model.align(imgs[j], (1.0, 1.0, 1.0), quat, pos, backend=be)
                    return [int(r.label), np.asarray(r.shift), np.asarray(r.quat), float(r.score)]
                if nm == "score":
                    return float(model.score(imgs[j], quat, pos, backend=be))
                if nm == "landscape":
                    return np.asarray(model.landscape(imgs[j], (1.0, 1.0, 1.0), quat, pos, backend=be))
                if nm == "masked_difference":
                    return np.asarray(model.masked_difference(imgs[j], quat, backend=be))
                if nm == "template_input":
                    t, m = model._get_template_and_mask_input(be if be is not None else Backend())
                    return [np.asarray(t), np.asarray(m)]
                raise KeyError(nm)

            def call():
                return [one(nm, (i + k) % 4) for k, nm in enumerate(name.split("+"))]

            return call

        def make():
            reset_shared_state()
            model = _cls(h["model"])(tm, **kw)
            be = Backend() if h["shared_backend"] else None
            return [mk_call(nm, i, model, be) for i, nm in enumerate(h["bodies"])]

        def solo():
            out = []
            for i, nm in enumerate(h["bodies"]):
                reset_shared_state()
                model = _cls(h["model"])(tm, **kw)
                be = Backend() if h["shared_backend"] else None
                out.append(mk_call(nm, i, model, be)())
            return out

        return make, solo

    if h["kind"] == "backend-global":
        from acryo.backend import using_backend

        def b_using():
            with using_backend("numpy"):
                return Backend().name

        def b_construct():
            return Backend().name

        def make():
            reset_shared_state()
            return [b_using, b_construct]

        return make, lambda: ["numpy", "numpy"]

    # helpers
    from acryo import _utils
    from acryo.backend import _fsc, _zncc, build_mesh
    from acryo.tilt import single_axis

    rotg = data.scipy_rot("gen0")

    def helper(spec, i):
        p = spec.split(":")
        if p[0] == "mask":
            n, a = int(p[1]), float(p[2])
            return lambda: np.asarray(single_axis((-a, a)).create_mask(rotg, (n, n, n)))
        if p[0] == "lowpass":
            n = int(p[1])
            im = np.random.default_rng(n).standard_normal((n, n, n)).astype(np.float32)
            return lambda: [np.asarray(Backend().lowpass_filter(im, 0.3)), np.asarray(_utils.lowpass_filter(im, 0.3))]
        if p[0] == "fsc":
            n = int(p[1])
            r = np.random.default_rng(n)
            f0 = np.fft.fftn(r.standard_normal((n, n, n))).astype(np.complex64)
            f1 = np.fft.fftn(r.standard_normal((n, n, n))).astype(np.complex64)
            return lambda: np.asarray(_fsc.fsc_landscape(f0, f1, (1.0, 1.0, 1.0), Backend()))
        if p[0] == "mesh":
            return lambda: np.asarray(build_mesh((7, 7, 7), (1.0, 1.5, 1.0), 2, Backend()))
        if p[0] == "zncc":
            n = int(p[1])
            r = np.random.default_rng(n + 3)
            a, b = r.standard_normal((n, n, n)).astype(np.float32), r.standard_normal((n, n, n)).astype(np.float32)
            return lambda: np.asarray(_zncc.zncc_landscape_with_crop(a, b, (1.0, 1.0, 1.0), Backend()))
        raise KeyError(spec)

    def make():
        reset_shared_state()
        return [helper(s, i) for i, s in enumerate(h["bodies"])]

    def solo():
        out = []
        for i, s in enumerate(h["bodies"]):
            reset_shared_state()
            out.append(helper(s, i)())
        return out

    return make, solo


def _run_b(case):
    import dask

    from vf import census, sched_threads as st
    from vf.core import REPO

    dask.config.set(scheduler="synchronous")
    h = case["harness"]
    cen = census.census(os.path.join(REPO, "acryo"))
    index = census.closure_code_index(os.path.join(REPO, "acryo"), cen, level=h["level"])
    make, solo = _b_setup(h)
    ref = [canon(r) for r in solo()]
    viol = []
    nexec = ntrans = 0
    outcomes = {}
    example = None
    completed_bound = -1
    capped = False
    for bound in range(0, h["bound"] + 1):
        seen_this = 0
        for ex in st.explore(make, index, bound, max_executions=case.get("cap", 6000)):
            seen_this += 1
            nexec += 1
            ntrans += len(ex.points)
            if any(isinstance(e, st.Divergence) for e in ex.errors if e is not None):
                return {"harness_error": f"divergence while replaying a prefix in harness {h}: {[str(e) for e in ex.errors if e]}"}
            obs = tuple((f"raised-{type(e).__name__}" if e is not None else canon(r)) for r, e in zip(ex.results, ex.errors))
            outcomes[obs] = outcomes.get(obs, 0) + 1
            if list(obs) != ref and example is None:
                example = (list(ex.choices), [ex.points[i][2] for i, c in enumerate(ex.choices) if c and ex.points[i][0] is not None], obs, ex, bound)
        if getattr(st.explore, "capped", False):
            capped = True
            break
        completed_bound = bound
        if example is not None:
            break
    if example is not None:
        choices, where, obs, ex, bound = example
        # replay twice
        reps = []
        for _ in range(2):
            e2 = st.Execution(make(), choices, index).run()
            reps.append(tuple((f"raised-{type(e).__name__}" if e is not None else canon(r)) for r, e in zip(e2.results, e2.errors)))
        if not (reps[0] == reps[1] == obs):
            return {"harness_error": f"interleaving {choices} of harness {h} does not replay deterministically: {obs} / {reps}"}
        errs = [f"thread {i}: {type(e).__name__}: {e}" for i, e in enumerate(ex.errors) if e is not None]
        free = _free_running_confirmation(make, ref) if case.get("confirm", True) else "not run"
        what = "raised-" + type([e for e in ex.errors if e is not None][0]).__name__ if errs else "result-differs"
        label = h.get("model", h["kind"]) if h["kind"] == "model" else h["kind"]
        viol.append((f"{ID}|interleaving|{label}|{'+'.join(sorted(set(h['bodies'])))}|{what}",
                     f"threads {h['bodies']} sharing {'one ' + h.get('model', '') + ' model' if h['kind'] == 'model' else h['kind']} "
                     f"(shared backend: {h.get('shared_backend')}), {bound} preemption(s) at {where}: " + ("; ".join(errs) if errs else "a thread's result differs from its solo result")
                     + f"; choices {choices}; confirmed on free-running threads: {free}"))
    return {"nontrivial": nexec > 1, "outcome": f"b|{h['kind']}|{len(outcomes)}-outcomes", "viol": viol,
            "metrics": {"b_executions": nexec, "b_scheduling_points": ntrans, "b_completed_bound": completed_bound, "b_capped": float(capped),
                        "b_distinct_outcomes": len(outcomes)},
            "census": {k: v for k, v in cen.items() if k in ("cached_functions", "shared_instance_attributes", "shared_module_names", "class_attributes_rebound", "closure")} if case.get("want_census") else None}


def _free_running_confirmation(make, ref, runs=60):
    """same bodies on free threads (confirmation only)"""
    import sys
    import threading

    old = sys.getswitchinterval()
    sys.setswitchinterval(1e-6)
    bad = 0
    try:
        for _ in range(runs):
            bodies = make()
            res = [None] * len(bodies)
            err = [None] * len(bodies)

            def run(i):
                try:
                    res[i] = bodies[i]()
                except BaseException as e:  # noqa
                    err[i] = e

            ths = [threading.Thread(target=run, args=(i,)) for i in range(len(bodies))]
            for t in ths:
                t.start()
            for t in ths:
                t.join()
            obs = [(f"raised-{type(e).__name__}" if e is not None else canon(r)) for r, e in zip(res, err)]
            if obs != ref:
                bad += 1
    finally:
        sys.setswitchinterval(old)
    return f"{bad} of {runs} runs"


# ------------------------------------------------------------------ (c) call histories on memoised helpers
def _c_alphabet():
    from acryo import _utils
    from acryo.backend import Backend, _fsc, _zncc, build_mesh
    from acryo.tilt import dual_axis, single_axis

    rotg = data.scipy_rot("gen0")
    roti = data.scipy_rot("cube0")
    r = np.random.default_rng(3)
    im5 = r.standard_normal((5, 5, 5)).astype(np.float32)
    im6 = r.standard_normal((4, 6, 5)).astype(np.float32)
    f5a = np.fft.fftn(r.standard_normal((5, 5, 5))).astype(np.complex64)
    f5b = np.fft.fftn(r.standard_normal((5, 5, 5))).astype(np.complex64)
    f6a = np.fft.fftn(r.standard_normal((4, 6, 5))).astype(np.complex64)
    f6b = np.fft.fftn(r.standard_normal((4, 6, 5))).astype(np.complex64)
    be = Backend()
    calls = {
        "mask(5,60,g)": lambda: np.asarray(single_axis((-60.0, 60.0)).create_mask(rotg, (5, 5, 5))),
        "mask(5,60,i)": lambda: np.asarray(single_axis((-60.0, 60.0)).create_mask(roti, (5, 5, 5))),
        "mask(5,40x,g)": lambda: np.asarray(single_axis((-40.0, 55.0), "x").create_mask(rotg, (5, 5, 5))),
        "mask(465,60,g)": lambda: np.asarray(single_axis((-60.0, 60.0)).create_mask(rotg, (4, 6, 5))),
        "mask(465,60,i)": lambda: np.asarray(single_axis((-60.0, 60.0)).create_mask(roti, (4, 6, 5))),
        "mask(465,40x,i)": lambda: np.asarray(single_axis((-40.0, 55.0), "x").create_mask(roti, (4, 6, 5))),
        "dual(5)": lambda: np.asarray(dual_axis((-60.0, 60.0), (-40.0, 40.0)).create_mask(rotg, (5, 5, 5))),
        "be.wedge(5)": lambda: np.asarray(be.missing_wedge_mask(rotg, (-60.0, 60.0), (5, 5, 5))),
        "utils.wedge(5)": lambda: np.asarray(_utils.missing_wedge_mask(rotg, (-60.0, 60.0), (5, 5, 5))),
        "lowpass(5,.3)": lambda: [np.asarray(be.lowpass_filter(im5, 0.3)), np.asarray(_utils.lowpass_filter(im5, 0.3)), np.asarray(be.lowpass_filter_ft(im5, 0.3))],
        "lowpass(5,.2)": lambda: [np.asarray(be.lowpass_filter(im5, 0.2)), np.asarray(_utils.lowpass_filter_ft(im5, 0.2))],
        "lowpass(465,.3)": lambda: [np.asarray(be.lowpass_filter(im6, 0.3, 3)), np.asarray(_utils.lowpass_filter(im6, 0.3, 3))],
        "fsc(5)": lambda: np.asarray(_fsc.fsc_landscape(f5a, f5b, (1.0, 1.0, 1.0), be)),
        "fsc(465)": lambda: np.asarray(_fsc.fsc_landscape(f6a, f6b, (1.0, 0.0, 1.0), be)),
        "mesh(7,1,2)": lambda: np.asarray(build_mesh((7, 7, 7), (1.0, 1.5, 1.0), 2, be)),
        "zncc(5,1)": lambda: np.asarray(_zncc.zncc_landscape_with_crop(im5, im5[::-1].copy(), (1.0, 1.0, 1.0), be)),
    }
    return calls


def _run_c(case):
    calls = _c_alphabet()
    names = list(calls)
    ref = {}
    for n in names:
        reset_shared_state()
        ref[n] = canon(calls[n]())
    viol = []
    nseq = ncalls = 0
    depth = case["depth"]
    first = names[case["lo"]:case["hi"]]
    for a in first:
        for seq in itertools.chain(*[itertools.product([a], *([names] * (d - 1))) for d in range(1, depth + 1)]):
            reset_shared_state()
            nseq += 1
            for i, n in enumerate(seq):
                ncalls += 1
                try:
                    got = canon(calls[n]())
                except Exception as e:  # noqa
                    got = f"raised-{type(e).__name__}"
                if got != ref[n]:
                    fam = n.split("(")[0]
                    viol.append((f"{ID}|call-history|{fam}|{'raised' if got.startswith('raised') else 'stale-or-corrupted'}",
                                 f"call {n} as step {i + 1} of history {list(seq)} differs from the same call in a fresh process ({got})"))
                    break
            if len(viol) > 3:
                break
    # cache overflow: more distinct keys than any maxsize (32), then the first key again
    if case["lo"] == 0:
        from acryo.tilt import single_axis

        rotg = data.scipy_rot("gen0")
        reset_shared_state()
        shapes = [(a, b, c) for a in (3, 4, 5) for b in (3, 4, 5) for c in (3, 4, 5, 6)][:34]
        firsts = {}
        for rep in range(2):
            for s in shapes:
                for rng_ in ((-60.0, 60.0), (-50.0 - s[0], 40.0 + s[2])):
                    nseq += 1
                    ncalls += 1
                    m = canon(np.asarray(single_axis(rng_).create_mask(rotg, s)))
                    if (s, rng_) in firsts and firsts[(s, rng_)] != m:
                        viol.append((f"{ID}|call-history|mask|cache-overflow", f"mask for shape {s}, range {rng_} changed after the caches were cycled"))
                    firsts.setdefault((s, rng_), m)
    by = {}
    for s, m in viol:
        by.setdefault(s, m)
    return {"nontrivial": True, "outcome": f"c|{len(by)}", "viol": list(by.items()), "metrics": {"c_histories": nseq, "c_calls": ncalls}}


# ------------------------------------------------------------------ (d) chunkings, schedulers, declared shapes
def _compositions(n):
    out = []
    for bits in itertools.product((0, 1), repeat=n - 1):
        comp, cur = [], 1
        for b in bits:
            if b:
                comp.append(cur)
                cur = 1
            else:
                cur += 1
        comp.append(cur)
        out.append(tuple(comp))
    return out


def _run_d(case):
    import dask
    from dask import array as da

    from acryo import SubtomogramLoader

    kind = case["sub"]
    viol = []
    if kind == "chunking":
        dask.config.set(scheduler="synchronous")
        reset_shared_state()
        tomo, mole, tm = _universe(3)
        tomo = tomo[:8, :8, :8].copy()
        mole = mole.translate([-3.0, -3.5, -2.0])
        ref_ld = SubtomogramLoader(tomo, mole, order=case["order"], output_shape=(3, 3, 3))
        ref = [np.asarray(ref_ld.asnumpy()), np.asarray(ref_ld.average())]
        ax = case["axis"]
        n = tomo.shape[ax]
        comps = _compositions(n) if case["comps"] == "all" else [tuple(c) for c in case["comps"]]
        for comp in comps:
            ch = [tomo.shape[0], tomo.shape[1], tomo.shape[2]]
            chunks = tuple(comp if i == ax else (ch[i],) for i in range(3))
            ld = SubtomogramLoader(da.from_array(tomo, chunks=chunks), mole, order=case["order"], output_shape=(3, 3, 3))
            got = [np.asarray(ld.asnumpy()), np.asarray(ld.average())]
            if not (np.allclose(got[0], ref[0], rtol=0, atol=1e-6) and np.allclose(got[1], ref[1], rtol=0, atol=1e-6)):  # the mean used for padding is summed chunk-wise: last-bit differences
                viol.append((f"{ID}|chunking|asnumpy-average|order={case['order']}", f"tomogram chunked {comp} along axis {ax}: loaded sub-volumes differ from the numpy tomogram by {np.abs(got[0] - ref[0]).max():.3g}"))
                break
        return {"nontrivial": True, "outcome": "d|chunking", "viol": viol, "metrics": {"d_chunkings": len(comps)}}
    if kind == "chunking3":
        dask.config.set(scheduler="synchronous")
        reset_shared_state()
        tomo, mole, tm = _universe(3)
        ref_ld = SubtomogramLoader(tomo, mole, order=case["order"], output_shape=BOX)
        ref_al = ref_ld.align(tm, max_shifts=1.0, alignment_model=_cls(case["model"])).molecules
        n = 0
        for cz, cy, cx in itertools.product((16, 8, 5), (17, 6), (18, 9, 4)):
            n += 1
            ld = SubtomogramLoader(da.from_array(tomo, chunks=(cz, cy, cx)), mole, order=case["order"], output_shape=BOX)
            al = ld.align(tm, max_shifts=1.0, alignment_model=_cls(case["model"])).molecules
            if not (np.array_equal(al.pos, ref_al.pos) and np.array_equal(al.features["score"].to_numpy(), ref_al.features["score"].to_numpy())):
                viol.append((f"{ID}|chunking|align|{case['model']}", f"chunks {(cz, cy, cx)}: aligned positions / scores differ from the numpy tomogram"))
                break
        return {"nontrivial": True, "outcome": "d|chunking3", "viol": viol, "metrics": {"d_chunkings": n}}
    if kind == "scheduler":
        reset_shared_state()
        h = case["harness"]
        body = _a_body(h)
        with dask.config.set(scheduler="synchronous"):
            ref = canon(body())
        with dask.config.set(scheduler="threads", num_workers=case["workers"]):
            try:
                got = canon(body())
            except Exception as e:  # noqa
                got = f"raised-{type(e).__name__}: {e}"
        if got != ref:
            viol.append((f"{ID}|stock-scheduler|{h['op']}|threads", f"{h['op']} ({h['model']}, {h['n']} molecules) with the threaded scheduler and {case['workers']} workers: {got if got.startswith('raised') else 'result differs from the synchronous scheduler'}"))
        return {"nontrivial": True, "outcome": "d|scheduler", "viol": viol}
    if kind == "shape":
        dask.config.set(scheduler="synchronous")
        reset_shared_state()
        tomo, mole, tm = _universe(2)
        scale = case["scale"]
        mole = mole.__class__(mole.pos * scale, mole.rotator)
        ld = SubtomogramLoader(tomo, mole, order=1, scale=scale, output_shape=BOX)
        tk = case["tk"]
        kw = {}
        template = tm
        if tk in (3, 6):
            kw["rotations"] = ((0, 0), (0, 0), (20, 20))
        if tk == 6:
            template = np.stack([tm, tm[::-1].copy()])
        M = case["M"]
        ms = tuple(m * scale for m in M) if isinstance(M, (list, tuple)) else M * scale
        try:
            arr = ld.construct_landscape(template, max_shifts=ms, upsample=case["upsample"], alignment_model=_cls(case["model"]), **kw)
            declared = tuple(arr.shape)
            computed = tuple(np.asarray(arr.compute()).shape)
        except Exception as e:  # noqa
            from vf.core import acryo_frame

            return {"nontrivial": True, "outcome": "d|shape|raised", "viol": [(f"{ID}|declared-shape|construct_landscape|raised-{type(e).__name__}", f"max_shifts {M} px, upsample {case['upsample']}, {case['model']}, T*K={tk}: {type(e).__name__}: {str(e)[:200]} at {acryo_frame(e.__traceback__)}")]}
        if declared != computed:
            viol.append((f"{ID}|declared-shape|construct_landscape|{case['model']}", f"max_shifts {M} px, upsample {case['upsample']}, T*K={tk}: dask array declares shape {declared} but computing it yields {computed}"))
        d2 = ld.construct_dask()
        if tuple(d2.shape) != tuple(np.asarray(d2.compute()).shape):
            viol.append((f"{ID}|declared-shape|construct_dask", f"{d2.shape} vs {np.asarray(d2.compute()).shape}"))
        return {"nontrivial": True, "outcome": "d|shape", "viol": viol}
    raise KeyError(kind)


# ------------------------------------------------------------------ case list / dispatch
def cases(tier, seed):
    out = []
    # (a)
    for h in A_HARNESSES:
        if h["n"] <= 3 and h["op"] not in ("average-chunked", "classify"):
            mode = "all"
        else:
            mode = "d1" if tier == "quick" else "d2"
        if tier == "quick" and h["op"] == "align-rot" and h["n"] == 3:
            continue
        if h["op"].startswith("mock."):
            # ~70 heavy tasks per run: single deviations only, capped in the quick tier (the cap is reported)
            out.append({"family": "a", "harness": h, "mode": "d1", "dcap": 200 if tier == "quick" else 20000})
            continue
        out.append({"family": "a", "harness": h, "mode": mode, "cap": 400 if tier == "quick" else 3000, "fallback": "d1" if tier == "quick" else "d2"})
    # unreduced cross-check on 2 molecules (every plumbing task is a choice too)
    for h in A_HARNESSES:
        if h["n"] == 2 and h["op"] in ("align", "asnumpy", "score") and h["model"] in ("-", "ZNCC"):
            out.append({"family": "a", "harness": h, "mode": "all", "cap": 400 if tier == "quick" else 6000, "fallback": "d2", "reduce": False})
    # (b)
    for i, h in enumerate(_b_harnesses(tier)):
        out.append({"family": "b", "harness": h, "cap": 8000, "want_census": i == 0})
    # (c)
    nalpha = 16
    for lo in range(0, nalpha, 2):
        out.append({"family": "c", "lo": lo, "hi": min(nalpha, lo + 2), "depth": 3})
    # (d)
    for order in (0, 1, 3):
        for ax in range(3):
            out.append({"family": "d", "sub": "chunking", "order": order, "axis": ax, "comps": "all" if (ax == 0 or tier == "thorough") else [[4, 4], [1, 7], [3, 3, 2], [2, 2, 2, 2], [1] * 8]})
    for model in ("ZNCC", "PCC"):
        out.append({"family": "d", "sub": "chunking3", "order": 1, "model": model})
    for h in A_HARNESSES:
        if h["n"] == 3 and h["op"] in ("asnumpy", "average", "align", "score", "landscape", "apply") and h["model"] in ("-", "ZNCC"):
            for w in (1, 2, 4, 16):
                out.append({"family": "d", "sub": "scheduler", "harness": h, "workers": w})
    for model in ("ZNCC", "NCC", "PCC", "FSC"):
        for M in (1.0, 1.5, 3.125, [1.0, 2.0, 0.5]):
            for ups in (1, 2, 3, 5):
                for tk in (1, 3, 6):
                    for scale in (1.0, 0.5):
                        if model == "FSC" and (ups > 2 or tk == 6 or (not isinstance(M, list) and M > 2)):
                            continue
                        if tier == "quick" and scale == 0.5 and not (ups == 1 and tk == 1):
                            continue
                        out.append({"family": "d", "sub": "shape", "model": model, "M": M, "upsample": ups, "tk": tk, "scale": scale})
    return out


def run_case(case):
    return {"a": _run_a, "b": _run_b, "c": _run_c, "d": _run_d}[case["family"]](case)


def replay_case(case):
    return run_case(case)


def extra(tier, seed, report):
    m = report.metrics
    states = int(m.get("a_executions", {}).get("sum", 0) + m.get("b_executions", {}).get("sum", 0) + m.get("c_histories", {}).get("sum", 0))
    trans = int(m.get("a_tasks_executed", {}).get("sum", 0) + m.get("b_scheduling_points", {}).get("sum", 0) + m.get("c_calls", {}).get("sum", 0))
    report.cov["states"] = max(1, states)
    report.cov["transitions"] = max(1, trans)
    report.cov["traces_validated_against_impl"] = max(0, states)
    report.cov["task_order_executions"] = int(m.get("a_executions", {}).get("sum", 0))
    report.cov["task_order_executions_deviating_from_default"] = int(m.get("a_executions_deviating", {}).get("sum", 0))
    report.cov["thread_interleavings_executed"] = int(m.get("b_executions", {}).get("sum", 0))
    report.cov["preemption_bound_completed_min"] = m.get("b_completed_bound", {}).get("min")
    report.cov["any_exploration_capped"] = bool(m.get("a_capped", {}).get("max", 0) or m.get("b_capped", {}).get("max", 0))
    report.cov["call_histories"] = int(m.get("c_histories", {}).get("sum", 0))
    report.cov["explanation"] = ("states = executions (task orders + thread interleavings + call histories) run on the real code; transitions = scheduling decisions / calls; "
                                 "every execution is compared with the sequential reference, so traces_validated = states")
    try:
        from vf import census
        from vf.core import REPO

        cen = census.census(os.path.join(REPO, "acryo"))
        report.cov["census"] = {k: cen[k] for k in ("cached_functions", "shared_instance_attributes", "shared_module_names", "class_attributes_rebound", "closure", "closure_level2")}
    except Exception as e:  # noqa
        report.cov["census"] = f"failed: {e}"
