"""C11 -- molecule poses obey rigid-motion algebra in z,y,x order.

E2: explicit-state exploration of rotate/translate histories on a 3-row Molecules
object whose reference model is exact integer arithmetic (cube-group matrices and
lattice positions): (i) closure of the orientation subgraph under world and internal
rotations (<= 576 orientation states), (ii) all histories of the full alphabet
(rotations + world/internal translations) to a depth bound.  Every transition is made
through every equivalent API form, with copy=True (frame condition on the source) and
copy=False; invariants are evaluated in every state.
E1: representation round trips for CUBE24 + generic + degenerate rotations, all 12
Euler sequences (intrinsic/extrinsic, degrees/radians, xyz/zyx ordering), from_axes for
every axis pair including anti-parallel rows given exactly and perturbed across the
code's 1e-6 parallelism test, batches mixing generic and degenerate rows.
"""
from __future__ import annotations

import collections
import itertools

import numpy as np

from vf import data

ID = "C11"
LEVEL = "model_checking"
ENGINE = "E2 explicit-state BFS over rotate/translate histories (+E1 round trips)"
TECHNIQUE = ("explicit-state breadth-first exploration of rotate/translate operation histories on the real Molecules object against an exact "
             "integer reference model (closure of the cube-group orientation graph, depth-bounded full alphabet), plus exhaustive round-trip enumeration")
DESIGN_REF = "DESIGN.md section 3, C11"
RULE = (
    "states = (orientation triple, position triple) of a 3-row Molecules object in the integer reference model; transitions = rotate_by* (5 equivalent forms), "
    "rotate_by_rotvec_internal, translate, translate_internal, each with copy=True and copy=False; orientation subgraph to closure, full alphabet to depth 3 (thorough 4); "
    "round-trip cases: rotation x representation x Euler sequence x axis pair x perturbation"
)
LEVEL_TEXT = ("every state of the cube-group orientation graph reachable by world/internal rotations is visited (closure) and every history of the full "
              "alphabet up to the depth bound; each transition and each state's invariants are compared with exact integer algebra")
ASSUMPTIONS = [
    "orientations from the cube group (exact integer matrices) for the state graph; generic rotations only in the round-trip family and in depth-2 histories",
    "positions on the integer lattice; states with |p| > 4 are checked but not expanded",
    "float tolerance 1e-6 on axes / matrices (float32 positions: 1e-5)",
    "rotate_by_euler_angle: full product order {xyz, zyx} x degrees x start {identity, generic} x copy per (rotation, sequence) against rotate_by",
    "from_axes inputs within 2e-6 of anti-parallel are compared with tolerance 1e-5",
]

GENS = {"z90": "cube5", "y90": None, "d180": None}
SEQS = ["".join(p) for p in itertools.product("xyz", repeat=3) if p[0] != p[1] and p[1] != p[2]]


def _gen_mats():
    from scipy.spatial.transform import Rotation

    # in the library's (z, y, x) coordinate space
    g = {
        "a90": np.round(Rotation.from_rotvec([np.pi / 2, 0, 0]).as_matrix()).astype(int),
        "b90": np.round(Rotation.from_rotvec([0, np.pi / 2, 0]).as_matrix()).astype(int),
        "d180": np.round(Rotation.from_rotvec(np.array([1, 1, 0]) / np.sqrt(2) * np.pi).as_matrix()).astype(int),
    }
    return g


TRANS = {"t+a": (1, 0, 0), "t+b": (0, 1, 0), "t-c": (0, 0, -1)}
INIT_R = ["cube0", "cube9", "cube20"]
INIT_P = [(0, 0, 0), (1, -1, 2), (-2, 0, 1)]


def AXES(tier):
    return {"generators": list(_gen_mats()), "translations": list(TRANS), "api_forms": 5, "copy": [True, False],
            "roundtrip_rotations": len(data.named_rotations()), "euler_sequences": 12 * 2}


# ------------------------------------------------------------------ E2
def _build(Rs, Ps):
    from scipy.spatial.transform import Rotation

    from acryo import Molecules

    return Molecules(np.array(Ps, dtype=np.float64), Rotation.from_matrix(np.array(Rs, dtype=np.float64)), features={"uid": [0, 1, 2]})


def _state_key(Rs, Ps):
    return (tuple(tuple(int(v) for v in R.flatten()) for R in Rs), tuple(tuple(int(v) for v in p) for p in Ps))


def _check_state(mol, Rs, Ps, where, viol_add):
    Rs = np.array(Rs, dtype=np.float64)
    Ps = np.array(Ps, dtype=np.float64)
    M = mol.matrix()
    if np.abs(M - Rs).max() > 1e-6:
        viol_add("orientation", where, f"matrix differs from the reference by {np.abs(M - Rs).max():.3g}")
        return
    if np.abs(mol.pos - Ps).max() > 1e-5:
        viol_add("position", where, f"positions {mol.pos.tolist()} != reference {Ps.tolist()}")
        return
    z, y, x = mol.z, mol.y, mol.x
    if np.abs(z - Rs[:, :, 0]).max() > 1e-6 or np.abs(y - Rs[:, :, 1]).max() > 1e-6 or np.abs(x - Rs[:, :, 2]).max() > 1e-6:
        viol_add("axes", where, "x, y, z are not the images of (0,0,1), (0,1,0), (1,0,0)")
    if np.abs(z + np.cross(x, y)).max() > 1e-6:
        viol_add("handedness", where, "z != -cross(x, y): not right-handed in z,y,x storage")
    G = np.einsum("nij,nkj->nik", np.stack([z, y, x], 1), np.stack([z, y, x], 1))
    if np.abs(G - np.eye(3)).max() > 1e-6:
        viol_add("orthonormal", where, "axes are not orthonormal")
    # affine matrices and local coordinates
    src = np.array([1.0, 2.0, 3.0])
    A = mol.affine_matrix(src)
    for i in range(3):
        ref = np.eye(4)
        ref[:3, :3] = Rs[i]
        ref[:3, 3] = Ps[i] - Rs[i] @ src
        if np.abs(A[i] - ref).max() > 1e-5:
            viol_add("affine_matrix", where, f"row {i}: affine matrix differs from T(pos) R T(-src) by {np.abs(A[i] - ref).max():.3g}")
            break
    shape = (2, 3, 4)
    for scale in (1.0, 0.5):
        L = mol.local_coordinates(shape, scale, squeeze=False)
        c = (np.array(shape) - 1) / 2
        k = np.stack(np.meshgrid(*[np.arange(n) for n in shape], indexing="ij"), 0).astype(np.float64)  # (3, Z, Y, X)
        for i in range(3):
            ref = Ps[i][:, None, None, None] / scale + np.einsum("ab,bzyx->azyx", Rs[i], k - c[:, None, None, None])
            if L[i].shape != ref.shape or np.abs(L[i] - ref).max() > 1e-4:
                viol_add("local_coordinates", where, f"row {i}, scale {scale}: differs from pos/scale + R (k - c) by {np.abs(L[i] - ref).max():.3g}")
                return


def _digest(mol):
    return (mol.pos.tobytes(), mol.quaternion().tobytes(), str(mol.features.to_dict(as_series=False)))


def explore(tier, report):
    from scipy.spatial.transform import Rotation

    INPLACE = [
        ("translate", lambda m: m.translate(np.array([10.0, -20.0, 30.0]), copy=False)),
        ("translate_internal", lambda m: m.translate_internal(np.array([1.0, 2.0, 3.0]), copy=False)),
        ("rotate_by", lambda m: m.rotate_by(Rotation.from_rotvec([[0.3, 0.2, -0.1]] * 3), copy=False)),
        ("rotate_by_rotvec_internal", lambda m: m.rotate_by_rotvec_internal(np.array([[0.1, 0.0, 0.4]] * 3), copy=False)),
    ]

    from vf.core import acryo_frame

    gens = _gen_mats()
    stats = {"states": 0, "transitions": 0}
    seen_sigs = set()

    def viol_add(kind, where, msg, case=None):
        sig = f"{ID}|state|{kind}|{where.split(':')[0]}"
        report.violations.append((sig, f"{where}: {msg}", case or {"engine": "E2", "where": where}))

    def world_forms(g):
        rot = Rotation.from_matrix(g.astype(float))
        e = rot.as_euler("ZXZ")  # scipy convention, used with order='zyx'
        return [
            ("rotate_by", lambda m, c: m.rotate_by(Rotation.from_matrix(np.array([g] * 3, dtype=float)), copy=c)),
            ("rotate_by_matrix", lambda m, c: m.rotate_by_matrix(np.array([g] * 3, dtype=float), copy=c)),
            ("rotate_by_quaternion", lambda m, c: m.rotate_by_quaternion(np.array([rot.as_quat()] * 3), copy=c)),
            ("rotate_by_rotvec", lambda m, c: m.rotate_by_rotvec(np.array([rot.as_rotvec()] * 3), copy=c)),
            ("rotate_by_euler_angle", lambda m, c: m.rotate_by_euler_angle(np.array([e] * 3), "ZXZ", order="zyx", copy=c)),
        ]

    def transitions(Rs, Ps, with_translation):
        out = []
        for gname, g in gens.items():
            out.append((f"world:{gname}", world_forms(g), [g @ R for R in Rs], list(Ps)))
            rv = Rotation.from_matrix(g.astype(float)).as_rotvec()
            out.append((f"internal:{gname}", [("rotate_by_rotvec_internal", lambda m, c, rv=rv: m.rotate_by_rotvec_internal(np.array([rv] * 3), copy=c))],
                        [R @ g for R in Rs], list(Ps)))
        if with_translation:
            for tname, t in TRANS.items():
                t = np.array(t)
                out.append((f"translate:{tname}", [("translate", lambda m, c, t=t: m.translate(t.astype(float), copy=c)),
                                                   ("translate(N,3)", lambda m, c, t=t: m.translate(np.array([t] * 3, dtype=float), copy=c))],
                            list(Rs), [p + t for p in Ps]))
                out.append((f"translate_internal:{tname}", [("translate_internal", lambda m, c, t=t: m.translate_internal(t.astype(float), copy=c))],
                            list(Rs), [p + R @ t for R, p in zip(Rs, Ps)]))
        return out

    def run(with_translation, max_depth, label):
        R0 = [np.round(data.rot_matrix(n)).astype(int) for n in INIT_R]
        P0 = [np.array(p) for p in INIT_P]
        seen = {_state_key(R0, P0)}
        frontier = collections.deque([(R0, P0, [])])
        _check_state(_build(R0, P0), R0, P0, f"{label}:initial", viol_add)
        nstates, ntrans, deepest = 1, 0, 0
        while frontier:
            Rs, Ps, hist = frontier.popleft()
            if max_depth is not None and len(hist) >= max_depth:
                continue
            for tname, forms, Rn, Pn in transitions(Rs, Ps, with_translation):
                for fname, fn in forms:
                    for copy in (True, False):
                        where = f"{label}:{'+'.join(hist + [tname])}:{fname}:copy={copy}"
                        case = {"engine": "E2", "label": label, "history": hist + [tname], "form": fname, "copy": copy}
                        src = _build(Rs, Ps)
                        before = _digest(src)
                        try:
                            out = fn(src, copy)
                        except Exception as e:  # noqa
                            report.violations.append((f"{ID}|transition|raised-{type(e).__name__}|{fname}", f"{where}: {e} at {acryo_frame(e.__traceback__)}", case))
                            continue
                        ntrans += 1
                        if copy:
                            if _digest(src) != before:
                                report.violations.append((f"{ID}|transition|source-modified|{fname}", f"{where}: copy=True altered the original", case))
                            if out is src:
                                report.violations.append((f"{ID}|transition|copy-returned-self|{fname}", where, case))
                            # aliasing: an in-place operation on the copy must not reach the original (two-step histories)
                            if fname in ("rotate_by", "rotate_by_rotvec_internal", "translate", "translate_internal"):
                                for iname, inplace in INPLACE:
                                    probe = fn(src, True)
                                    inplace(probe)
                                    ntrans += 1
                                    if _digest(src) != before:
                                        report.violations.append((f"{ID}|transition|original-altered-through-copy|{fname}->{iname}",
                                                                  f"{where}: {iname}(copy=False) on the object returned by {fname}(copy=True) altered the original", {**case, "then": iname}))
                                        src = _build(Rs, Ps)
                                        before = _digest(src)
                        else:
                            if out is not src:
                                report.violations.append((f"{ID}|transition|inplace-returned-new|{fname}", where, case))
                        nv = len(report.violations)
                        _check_state(out, Rn, Pn, where, lambda k, w, m, case=case: viol_add(k, w, m, case))
                        if out.features["uid"].to_list() != [0, 1, 2]:
                            report.violations.append((f"{ID}|transition|features-lost|{fname}", where, case))
                key = _state_key(Rn, Pn)
                if key not in seen:
                    seen.add(key)
                    nstates += 1
                    deepest = max(deepest, len(hist) + 1)
                    if max(abs(int(v)) for p in Pn for v in p) <= 4:
                        frontier.append((Rn, Pn, hist + [tname]))
        return nstates, ntrans, deepest

    s1, t1, d1 = run(False, None, "orientation-closure")
    s2, t2, d2 = run(True, 3 if tier == "quick" else 4, "full-alphabet")
    return {"orientation_closure_states": s1, "orientation_closure_depth": d1, "full_alphabet_states": s2, "full_alphabet_depth": d2,
            "states": s1 + s2, "transitions": t1 + t2}


# ------------------------------------------------------------------ E1 round trips
# right-handed orthogonal triads (z, y, x) with integer components, x = cross(z... ) checked below
INT_TRIADS = [((1, 1, 0), (-1, 1, 0), (0, 0, 2)), ((1, 2, 2), (2, 1, -2), (-6, 6, -3)), ((0, 3, 4), (0, -4, 3), (25, 0, 0)), ((2, -1, 2), (2, 2, -1), (-3, 6, 6))]


def cases(tier, seed):
    out = []
    names = [n for n, _ in data.named_rotations()]
    for n in names:
        out.append({"family": "repr", "rot": n})
        for seq in SEQS:
            for intrinsic in (False, True):
                for degrees in (False, True):
                    out.append({"family": "euler", "rot": n, "seq": seq.upper() if intrinsic else seq, "degrees": degrees})
        for pair in ("zy", "zx", "yx"):
            for scale in (1.0, 3.5):
                out.append({"family": "axes", "rot": n, "pair": pair, "scale": scale})
    # axes given as integers (differences of pixel coordinates), as int arrays, int32 arrays or nested lists: orthogonal integer
    # triads that are not axis-aligned
    for ti in range(len(INT_TRIADS)):
        for pair in ("zy", "yx", "zx"):
            for container in ("int64", "int32", "list", "float32", "mixed"):
                out.append({"family": "int-axes", "triad": ti, "pair": pair, "container": container})
    # anti-parallel rows, exact and perturbed, single and in mixed batches
    for which in ("y", "z", "zy"):
        for eps in (0.0, 1e-16, 1e-9, 5e-7, 2e-6):
            for batch in ("single", "mixed-first", "mixed-last", "all-degenerate"):
                for pair in ("zy", "zx", "yx"):
                    out.append({"family": "antiparallel", "which": which, "eps": eps, "batch": batch, "pair": pair})
    # generic histories (depth 2) with non-cube rotations
    gen = ["gen0", "gen1", "degen3", "degen4"]
    for a in gen:
        for b in gen:
            for kind in ("world-world", "world-internal", "internal-world", "internal-internal"):
                out.append({"family": "history", "a": a, "b": b, "kind": kind})
    return out


def _angle(Ra, Rb):
    d = Ra.T @ Rb
    return float(np.arccos(np.clip((np.trace(d) - 1) / 2, -1, 1)))


def run_case(case):
    from scipy.spatial.transform import Rotation

    from acryo import Molecules

    fam = case["family"]
    viol = []
    if fam == "repr":
        R = data.rot_matrix(case["rot"])
        rot = Rotation.from_matrix(R)
        pos = np.array([[1.0, 2.0, 3.0]])
        for name, mk, rd in (("quat", lambda: Molecules.from_quat(pos, rot.as_quat()[None]), lambda m: Rotation.from_quat(m.quaternion()[0]).as_matrix()),
                             ("rotvec", lambda: Molecules.from_rotvec(pos, rot.as_rotvec()[None]), lambda m: Rotation.from_rotvec(m.rotvec()[0]).as_matrix()),
                             ("matrix", lambda: Molecules.from_matrix(pos, R[None]), lambda m: m.matrix()[0])):
            m = mk()
            if _angle(R, rd(m)) > 1e-6 or _angle(R, m.matrix()[0]) > 1e-6:
                viol.append((f"{ID}|roundtrip|{name}", f"rotation {case['rot']}: from_{name} then reading back is {_angle(R, rd(m)):.3g} rad away"))
        return {"nontrivial": case["rot"] != "cube0", "outcome": "repr", "viol": viol}
    if fam == "euler":
        R = data.rot_matrix(case["rot"])
        pos = np.array([[0.0, 0.0, 0.0]])
        m = Molecules.from_matrix(pos, R[None])
        seq, deg = case["seq"], case["degrees"]
        ang = m.euler_angle(seq, degrees=deg)
        m2 = Molecules.from_euler(pos, ang, seq, degrees=deg, order="xyz")
        if _angle(R, m2.matrix()[0]) > 2e-6:
            viol.append((f"{ID}|roundtrip|euler-xyz", f"rotation {case['rot']}, seq {seq}, degrees {deg}: from_euler(euler_angle()) is {_angle(R, m2.matrix()[0]):.3g} rad away"))
        a2 = Rotation.from_matrix(R).as_euler(seq, degrees=deg)
        m3 = Molecules.from_euler(pos, a2[None], seq, degrees=deg, order="zyx")
        if _angle(R, m3.matrix()[0]) > 2e-6:
            viol.append((f"{ID}|roundtrip|euler-zyx", f"rotation {case['rot']}, seq {seq}: from_euler(order='zyx') of scipy's angles is {_angle(R, m3.matrix()[0]):.3g} rad away"))
        m4 = Molecules(pos).rotate_by_euler_angle(ang, seq, degrees=deg, order="xyz")
        if _angle(m2.matrix()[0], m4.matrix()[0]) > 2e-6:
            viol.append((f"{ID}|roundtrip|rotate_by_euler-vs-from_euler", f"seq {seq}"))
        # every (order, degrees) combination of rotate_by_euler_angle, from the identity and from a non-identity start,
        # for copy=True and copy=False, against rotate_by with the same scipy rotation (wave 10: zyx x degrees)
        R0 = data.rot_matrix("gen1")
        for order, angles in (("xyz", ang), ("zyx", a2[None])):
            for start_name, start in (("identity", np.eye(3)), ("gen1", R0)):
                for cp in (True, False):
                    ms = Molecules.from_matrix(pos.copy(), start[None].copy())
                    ref = Molecules.from_matrix(pos.copy(), start[None].copy()).rotate_by(Rotation.from_matrix(R))
                    got = ms.rotate_by_euler_angle(np.array(angles, dtype=np.float64), seq, degrees=deg, order=order, copy=cp)
                    err = _angle(ref.matrix()[0], got.matrix()[0])
                    if err > 2e-6:
                        viol.append((f"{ID}|world-rotation|rotate_by_euler_angle|order={order}|degrees={deg}",
                                     f"rotation {case['rot']}, seq {seq}, start {start_name}, copy={cp}: {err:.3g} rad away from rotate_by(R)"))
        return {"nontrivial": True, "outcome": "euler", "viol": viol}
    if fam == "axes":
        R = data.rot_matrix(case["rot"])
        ax = {"z": R[:, 0], "y": R[:, 1], "x": R[:, 2]}
        kw = {k: (ax[k] * case["scale"])[None] for k in case["pair"]}
        m = Molecules.from_axes(np.zeros((1, 3)), **kw)
        err = _angle(R, m.matrix()[0])
        if err > 1e-5:
            viol.append((f"{ID}|from_axes|generic|pair={case['pair']}", f"rotation {case['rot']} from its ({case['pair']}) axes (length {case['scale']}): result is {err:.3g} rad away; axes z={np.round(m.z[0], 3).tolist()} y={np.round(m.y[0], 3).tolist()}"))
        return {"nontrivial": True, "outcome": "axes", "viol": viol}
    if fam == "int-axes":
        z, y, x = [np.array(v) for v in INT_TRIADS[case["triad"]]]
        R = np.stack([z / np.linalg.norm(z), y / np.linalg.norm(y), x / np.linalg.norm(x)], axis=1).astype(np.float64)
        ax = {"z": z, "y": y, "x": x}
        cont = case["container"]

        def wrap(v, first):
            if cont == "list":
                return [[int(c) for c in v]]
            if cont == "mixed":
                return np.asarray(v, dtype=np.float64 if first else np.int64)[None]
            return np.asarray(v, dtype=cont)[None]

        kw = {k: wrap(ax[k], i == 0) for i, k in enumerate(case["pair"])}
        m = Molecules.from_axes(np.zeros((1, 3)), **kw)
        err = _angle(R, m.matrix()[0])
        if err > 1e-5:
            viol.append((f"{ID}|from_axes|integer-axes|pair={case['pair']}", f"axes {dict((k, ax[k].tolist()) for k in case['pair'])} given as {cont}: result is {err:.3g} rad from the frame they span; z={np.round(m.z[0], 3).tolist()} y={np.round(m.y[0], 3).tolist()}"))
        return {"nontrivial": True, "outcome": "int-axes", "viol": viol}
    if fam == "antiparallel":
        which, eps, batch, pair = case["which"], case["eps"], case["batch"], case["pair"]
        # degenerate orientation: y -> -y and/or z -> -z exactly (then x follows from right-handedness)
        z = np.array([1.0, 0.0, 0.0])
        y = np.array([0.0, 1.0, 0.0])
        if "y" in which:
            y = -y
        if "z" in which:
            z = -z
        x = np.cross(y, z)  # in zyx storage: x = -cross_xyz(z, y)... fixed below from the handedness rule
        x = -np.cross(z, y)
        # right-handed in zyx storage: z = -cross(x, y)
        if np.abs(z + np.cross(x, y)).max() > 1e-12:
            x = -x
        pert = np.array([0.0, 0.0, eps])
        zd, yd = z + pert, y + pert[::-1] * 0 + np.array([eps, 0.0, 0.0]) * 0
        yd = y + np.array([0.0, 0.0, eps])
        gen = data.rot_matrix("gen0")
        rows_deg = {"z": zd, "y": yd, "x": x}
        rows_gen = {"z": gen[:, 0], "y": gen[:, 1], "x": gen[:, 2]}
        order = {"single": ["d"], "mixed-first": ["d", "g", "g"], "mixed-last": ["g", "g", "d"], "all-degenerate": ["d", "d"]}[batch]
        kw = {k: np.array([(rows_deg if o == "d" else rows_gen)[k] for o in order]) for k in pair}
        m = Molecules.from_axes(np.zeros((len(order), 3)), **kw)
        for i, o in enumerate(order):
            want = {"z": z, "y": y, "x": x} if o == "d" else {"z": gen[:, 0], "y": gen[:, 1], "x": gen[:, 2]}
            got = {"z": m.z[i], "y": m.y[i], "x": m.x[i]}
            err = max(np.abs(got[k] - want[k]).max() for k in "zyx")
            if err > 1e-5 + 2 * eps:
                regime = "exact" if eps == 0 else ("below-1e-6" if eps < 1e-6 else "above-1e-6")
                viol.append((f"{ID}|from_axes|antiparallel-{which}|{'single' if batch == 'single' else 'batch'}|{regime}",
                             f"row {i} ({'degenerate' if o == 'd' else 'generic'}) of a {batch} batch, eps={eps}: axes z={np.round(got['z'], 4).tolist()} y={np.round(got['y'], 4).tolist()} x={np.round(got['x'], 4).tolist()}, "
                             f"expected z={want['z'].tolist()} y={want['y'].tolist()} x={np.round(want['x'], 4).tolist()}"))
                break
        return {"nontrivial": True, "outcome": f"antiparallel|{batch}", "viol": viol}
    if fam == "history":
        A, B = data.rot_matrix(case["a"]), data.rot_matrix(case["b"])
        R0 = data.rot_matrix("gen3")
        p0 = np.array([[1.0, -2.0, 0.5]])
        m = Molecules.from_matrix(p0, R0[None])
        ra, rb = Rotation.from_matrix(A), Rotation.from_matrix(B)
        k1, k2 = case["kind"].split("-")
        ref = R0
        for k, r, M in ((k1, ra, A), (k2, rb, B)):
            if k == "world":
                m = m.rotate_by(r)
                ref = M @ ref
            else:
                m = m.rotate_by_rotvec_internal(r.as_rotvec()[None])
                ref = ref @ M
        if _angle(ref, m.matrix()[0]) > 2e-6 or np.abs(m.pos - p0).max() > 1e-6:
            viol.append((f"{ID}|history|{case['kind']}", f"{case['a']} then {case['b']}: {_angle(ref, m.matrix()[0]):.3g} rad from the matrix product"))
        s = np.array([0.5, -1.0, 2.0])
        mt = m.translate_internal(s)
        if np.abs(mt.pos[0] - (p0[0] + ref @ s)).max() > 1e-5:
            viol.append((f"{ID}|history|translate_internal", "internal translation is not pos + R s"))
        return {"nontrivial": True, "outcome": "history", "viol": viol}
    raise KeyError(fam)


def replay_case(case):
    return {"nontrivial": True, "outcome": "replay", "viol": [], "note": "E2 counterexamples are re-run by ./check C11 (deterministic exploration)"}


def extra(tier, seed, report):
    st = explore(tier, report)
    report.cov.update(st)
    report.cov["traces_validated_against_impl"] = st["transitions"]
    report.cov["explanation"] = ("each transition is executed on a real Molecules object built from the reference state and compared with exact integer algebra; "
                                 "traces_validated = transitions executed (every API form x copy flag)")
    report.samples = (report.samples or [])[:4] + [{"engine": "E2", "initial_orientations": INIT_R, "initial_positions": INIT_P,
                                                     "example_history": ["world:a90", "internal:d180", "translate_internal:t+b"]}]
