"""C09 -- averages are plain arithmetic means of the loaded subtomograms.

E1 + E5: one-hot boxes (molecule i's box holds a single 1 at voxel index i) reveal the
exact weight given to every molecule: average()[voxel_i] must be 1/N, for every loader
kind, molecule count, tomogram chunking, seed and n_set; half-maps reveal the split.
By linearity of averaging this decides the operator for every data value.  A second
family uses random data with generic orientations: average == asnumpy().mean(0).
(E3: the averaging graph is also run under every dask task order with <= 1 deviation
 from the default, see extra().)
"""
from __future__ import annotations

import itertools

import numpy as np

from vf import data

ID = "C09"
LEVEL = "exploration"
DESIGN_REF = "DESIGN.md section 3, C09"
RULE = (
    "full product loader kind x molecule count N (1..6) x box shape x tomogram chunking (one-hot family) and loader kind x N x "
    "rotation set x interpolation order (random-data family); split family: N x seed (0..9) x n_set (1..3) x loader kind; "
    "non-trivial = N >= 2; distinct = distinct case tuples"
)
ASSUMPTIONS = [
    "one-hot boxes of shape (3,3,3) and (2,3,4), N <= 6 molecules, up to 3 tomograms; weights are compared exactly up to 1e-6",
    "linearity of averaging (sums and a division) lifts the one-hot verdict to every real-valued tomogram of these shapes",
    "seeds 0..9 and n_set 1..3 enumerated; 'different seeds give different splits' is reported, not required",
    "added during the seeding waves: integer tomograms, merged batches, dask auto-chunk size 256 B, call histories on one loader (average, average_split, fsc, fsc_with_halfmaps, fsc_with_average, results edited by the caller)",
]

BOXES = [(3, 3, 3), (2, 3, 4)]
KINDS = ["single", "batch(1,1)", "batch(2,1)", "batch(3,2,1)", "group2", "group3", "groupinc", "batch(2,1|1,1)", "batch(1,1|2,1)+"]
# "batch(a,b|c,d)": two batch loaders built independently (both number their tomograms 0, 1) and merged with from_loaders;
# with a trailing "+": merged with first.add_loader(second)
# group features: uid mod 2, uid mod 3, and one whose groups grow (sizes 1, 2, 3: a one-molecule group comes first)
GINC = [0, 1, 1, 2, 2, 2]
GKEY = {"group2": ("g2", lambda u: u % 2), "group3": ("g3", lambda u: u % 3), "groupinc": ("gi", lambda u: GINC[u])}
CHUNKS = ["numpy", "dask:whole", "dask:1", "dask:2", "dask:3", "dask:5", "dask:3,4,5"]


def AXES(tier):
    return {"kind": KINDS + ["mock"], "N": list(range(1, 7)), "box": BOXES, "chunking": CHUNKS, "seed": list(range(10)), "n_set": [1, 2, 3]}


def _counts(kind, N):
    """how the N molecules are distributed over tomograms"""
    if kind.startswith("batch"):
        c = [int(x) for x in kind.rstrip("+")[6:-1].replace("|", ",").split(",")]
        if sum(c) > N:
            return None
        c[0] += N - sum(c)
        return c
    return [N]


def cases(tier, seed):
    out = []
    for kind in KINDS:
        for N in range(1, 7):
            if _counts(kind, N) is None:
                continue
            for box in BOXES:
                for ch in CHUNKS:
                    if tier == "quick" and ch not in ("numpy", "dask:2", "dask:3,4,5") and not (kind == "single" and box == (3, 3, 3)):
                        continue
                    out.append({"family": "onehot", "kind": kind, "N": N, "box": list(box), "chunk": ch})
                    if N >= 5 and ch == "numpy" and tuple(box) == (3, 3, 3):
                        out.append({"family": "onehot", "kind": kind, "N": N, "box": list(box), "chunk": ch, "auto_chunk": "256B"})
            for s in range(10):
                for n_set in (1, 2, 3):
                    if tier == "quick" and n_set == 3 and s > 2:
                        continue
                    out.append({"family": "split", "kind": kind, "N": N, "box": [3, 3, 3], "chunk": "numpy", "seed": s, "n_set": n_set})
                    if N >= 4 and s < 4 and n_set <= 2:
                        # dask's automatic chunk size made tiny (256 B = two sub-volumes): what a stack beyond 128 MiB meets in production -
                        # the half stacks are split into several blocks of unequal length
                        out.append({"family": "split", "kind": kind, "N": N, "box": [3, 3, 3], "chunk": "numpy", "seed": s, "n_set": n_set, "auto_chunk": "256B"})
    # integer tomograms (MRC modes 0, 1, 6): the mean of sub-volumes that share a bright voxel must not wrap around
    for kind in ("single", "batch(2,1)", "group2", "group3", "batch(2,1|1,1)"):
        for N in (2, 3, 5, 6):
            if _counts(kind, N) is None:
                continue
            for dt in ("int8", "uint8", "int16", "float64"):
                for ch in ("numpy", "dask:3,4,5"):
                    out.append({"family": "onehot", "kind": kind, "N": N, "box": [3, 3, 3], "chunk": ch, "dtype": dt})
    for kind in ("single", "batch(2,1)", "group2", "mock"):
        for N in (1, 2, 3, 5):
            if _counts(kind, N) is None:
                continue
            for rotset in ("identity", "generic"):
                for order in (0, 1, 3):
                    out.append({"family": "random", "kind": kind, "N": N, "rot": rotset, "order": order, "seed": seed})
    # call histories on ONE loader object: averages, split averages and the FSC methods built on them (which normalise the
    # half-maps they get) must not depend on what was asked of the loader before; callers may edit what they were given
    for kind in ("single", "batch(2,1)", "mock"):
        out.append({"family": "history", "kind": kind, "depth": 2 if tier == "quick" else 3})
    return out


def _as_array(a, kind):
    if kind == "numpy":
        return a
    from dask import array as da

    spec = kind.split(":")[1]
    if spec == "whole":
        return da.from_array(a, chunks=a.shape)
    ch = tuple(int(c) for c in spec.split(","))
    if len(ch) == 1:
        ch = ch * 3
    return da.from_array(a, chunks=ch)


PAD = 3


AMP = {"float32": 1.0, "float64": 1.0, "int8": 100, "uint8": 200, "int16": 30000}


def _onehot_universe(counts, box, chunk, dtype="float32"):
    """tomograms + molecules: molecule i's box has a single one at flat voxel index i (global numbering)"""
    from acryo import Molecules

    bz, by, bx = box
    tomos, moles = [], []
    gi = 0
    for n in counts:
        T = np.zeros((bz + 2 * PAD, by + 2 * PAD, bx * n + 2 * PAD), dtype=np.dtype(dtype))
        pos = []
        uids = []
        for j in range(n):
            blk = np.zeros(bz * by * bx, dtype=np.dtype(dtype))
            blk[gi] = AMP[dtype]
            if dtype != "float32":
                blk[-1] = AMP[dtype]  # a voxel that is bright in every sub-volume: partial sums leave the integer range
            T[PAD:PAD + bz, PAD:PAD + by, PAD + bx * j:PAD + bx * (j + 1)] = blk.reshape(box)
            pos.append([PAD + (bz - 1) / 2, PAD + (by - 1) / 2, PAD + bx * j + (bx - 1) / 2])
            uids.append(gi)
            gi += 1
        tomos.append(_as_array(T, chunk))
        moles.append(Molecules(np.array(pos, dtype=np.float64).reshape(-1, 3), features={"uid": uids, "g2": [u % 2 for u in uids], "g3": [u % 3 for u in uids], "gi": [GINC[u] for u in uids]}))
    return tomos, moles


def _make_loader(kind, tomos, moles, box, order=1):
    from acryo import BatchLoader, SubtomogramLoader

    if kind.startswith("batch") and "|" in kind:
        nfirst = len(kind[6:].split("|")[0].split(","))
        parts = []
        for sl in (slice(0, nfirst), slice(nfirst, None)):
            b = BatchLoader(order=order, scale=1.0, output_shape=box)
            for T, m in zip(tomos[sl], moles[sl]):
                b.add_tomogram(T, m)  # automatic image ids: 0, 1, ... in each part
            parts.append(b)
        if kind.endswith("+"):
            return parts[0].add_loader(parts[1])
        return BatchLoader.from_loaders(parts, order=order, scale=1.0, output_shape=box)
    if kind.startswith("batch"):
        ld = BatchLoader(order=order, scale=1.0, output_shape=box)
        for t, (T, m) in enumerate(zip(tomos, moles)):
            ld.add_tomogram(T, m, image_id=t)
        return ld
    return SubtomogramLoader(tomos[0], moles[0], order=order, scale=1.0, output_shape=box)


def run_case(case):
    import dask

    dask.config.set(scheduler="synchronous")
    if case.get("auto_chunk"):
        with dask.config.set({"array.chunk-size": case["auto_chunk"]}):
            inner = dict(case)
            inner.pop("auto_chunk")
            res_ = run_case(inner)
        res_["outcome"] = res_["outcome"] + "|tiny-auto-chunks"
        res_["viol"] = [(s_ + "|tiny-auto-chunks", m_ + " (dask array.chunk-size = 256 B)") for s_, m_ in res_["viol"]]
        return res_
    fam = case["family"]
    if fam == "random":
        return _run_random(case)
    if fam == "history":
        return _run_history(case)
    kind, N, box = case["kind"], case["N"], tuple(case["box"])
    counts = _counts(kind, N)
    dtype = case.get("dtype", "float32")
    amp = float(AMP[dtype])
    tomos, moles = _onehot_universe(counts, box, case["chunk"], dtype)
    ld = _make_loader(kind, tomos, moles, box, order=1 if dtype == "float32" else 0)
    viol = []
    sig = lambda what: f"{ID}|{fam}|{kind.split('(')[0]}|{what}" + ("" if case.get("dtype") is None else "|integer-tomogram" if "int" in case["dtype"] else "|float64-tomogram")  # noqa
    nvox = int(np.prod(box))

    def weights(img):
        return np.asarray(img, dtype=np.float64).reshape(-1) / amp

    def expected(members):
        e = np.zeros(nvox)
        e[list(members)] = 1.0 / len(members)
        if dtype != "float32":
            e[-1] = 1.0
        return e

    if fam == "onehot":
        if kind.startswith("group"):
            key, gfn = GKEY[kind]
            G = ld.groupby(key)
            avgs = G.average()
            uids_all = list(range(N))
            for k, img in avgs.items():
                kk = k[0] if isinstance(k, tuple) else k
                members = [u for u in uids_all if gfn(u) == kk]
                w = weights(img)
                exp = expected(members)
                if np.abs(w - exp).max() > 1e-6:
                    viol.append((sig("group-average-weights"), f"group {k} of N={N}: weights {np.round(w[:N], 4).tolist()} expected {np.round(exp[:N], 4).tolist()}"))
                import polars as pl

                own = weights(ld.filter(pl.col(key) == kk).average())
                if np.abs(w - own).max() > 1e-6:
                    viol.append((sig("group-vs-filter"), f"group {k}: average differs from loader.filter({key}=={kk}).average()"))
            if sorted((k[0] if isinstance(k, tuple) else k) for k in avgs) != sorted({gfn(u) for u in uids_all}):
                viol.append((sig("group-keys"), f"keys {list(avgs)}"))
        else:
            w = weights(ld.average())
            exp = expected(range(N))
            if w.shape[0] != nvox or np.abs(w - exp).max() > 1e-6:
                viol.append((sig("average-weights"), f"N={N}, tomogram counts {counts}, box {box}, chunking {case['chunk']}, dtype {dtype}: molecule weights {np.round(w[:N], 5).tolist()} expected all {1.0 / N:.5f}; other voxels off by {np.abs((w - exp)[N:]).max() if nvox > N else 0:.3g}"))
            m = weights(np.asarray(ld.asnumpy()).mean(axis=0))
            if np.abs(w - m).max() > 1e-6:
                viol.append((sig("average-vs-stack-mean"), f"average() differs from asnumpy().mean(0) by {np.abs(w - m).max():.3g}"))
            if kind.startswith("batch"):
                per = [weights(l.average()) for l in ld.loaders]
                comb = sum(c * p for c, p in zip(counts, per)) / N
                if np.abs(w - comb).max() > 1e-6:
                    viol.append((sig("batch-weighted-mean"), f"batch average is not the count-weighted mean of per-tomogram averages (counts {counts})"))
        return {"nontrivial": N >= 2, "outcome": f"onehot|{kind}|{'viol' if viol else 'ok'}", "viol": viol}

    # split family
    seed, n_set = case["seed"], case["n_set"]
    if kind.startswith("group"):
        key, gfn = GKEY[kind]
        res = ld.groupby(key).average_split(n_set=n_set, seed=seed, squeeze=False)
        res2 = ld.groupby(key).average_split(n_set=n_set, seed=seed, squeeze=False)
        items = []
        for k, arr in res.items():
            kk = k[0] if isinstance(k, tuple) else k
            members = [u for u in range(N) if gfn(u) == kk]
            items.append((f"group {k}", np.asarray(arr), np.asarray(res2[k]), members))
        got_keys = {(k[0] if isinstance(k, tuple) else k) for k in res}
        for kk in sorted({gfn(u) for u in range(N)}):
            if kk not in got_keys and sum(1 for u in range(N) if gfn(u) == kk) >= 2:
                viol.append((sig("split-group-missing"), f"group {kk} ({sum(1 for u in range(N) if gfn(u) == kk)} molecules) has no entry in average_split(); keys {sorted(got_keys)}"))
    else:
        arr = np.asarray(ld.average_split(n_set=n_set, seed=seed, squeeze=False))
        arr2 = np.asarray(ld.average_split(n_set=n_set, seed=seed, squeeze=False))
        items = [("loader", arr, arr2, list(range(N)))]
    for name, arr, arr2, members in items:
        n = len(members)
        if arr.shape != (n_set, 2) + box:
            viol.append((sig("split-shape"), f"{name}: shape {arr.shape}, expected {(n_set, 2) + box}"))
            continue
        if not np.array_equal(arr, arr2, equal_nan=True):
            viol.append((sig("split-not-reproducible"), f"{name}: two calls with seed {seed} differ"))
        for s in range(n_set):
            h0, h1 = weights(arr[s, 0]), weights(arr[s, 1])
            if n >= 2:
                if not (np.all(np.isfinite(h0)) and np.all(np.isfinite(h1))):
                    viol.append((sig("split-empty-half"), f"{name}, N={n}, seed {seed}, set {s}: a half-map is not finite (empty half)"))
                    continue
                s0 = {u for u in members if h0[u] > 1e-9}
                s1 = {u for u in members if h1[u] > 1e-9}
                ok_w = all(abs(h0[u] - 1.0 / len(s0)) < 1e-6 for u in s0) and all(abs(h1[u] - 1.0 / len(s1)) < 1e-6 for u in s1)
                if s0 & s1 or (s0 | s1) != set(members) or not s0 or not s1 or not ok_w:
                    viol.append((sig("split-not-a-partition"), f"{name}, N={n}, seed {seed}, set {s}: halves {sorted(s0)} / {sorted(s1)} of {members} (weights {np.round(h0[members], 3).tolist()} / {np.round(h1[members], 3).tolist()})"))
                    continue
                comb = (len(s0) * h0 + len(s1) * h1) / n
                exp = np.zeros(nvox)
                exp[members] = 1.0 / n
                if np.abs(comb - exp).max() > 1e-6:
                    viol.append((sig("split-recombination"), f"{name}: count-weighted mean of the halves is not the full average"))
    return {"nontrivial": N >= 2, "outcome": f"split|{kind}|n_set={n_set}|{'viol' if viol else 'ok'}", "viol": viol}


def _run_history(case):
    from scipy.spatial.transform import Rotation

    from acryo import BatchLoader, MockLoader, Molecules, SubtomogramLoader
    from vf import history

    kind = case["kind"]
    N = 5
    box = (5, 4, 6)

    def make():
        rng = np.random.default_rng(41)
        rots = Rotation.from_matrix(np.array([data.rot_matrix(n) for n in ("gen0", "cube0", "gen1", "cube9", "gen3")]))
        mole = Molecules(rng.uniform(9, 13, size=(N, 3)), rots, features={"g2": np.arange(N) % 2})
        if kind == "mock":
            return MockLoader(rng.standard_normal((7, 7, 7)).astype(np.float32) + 2.0, Molecules(rng.uniform(-1, 1, size=(N, 3)), rots), order=1)
        if kind.startswith("batch"):
            ld = BatchLoader(order=1, output_shape=box)
            ld.add_tomogram(rng.standard_normal((22, 22, 22)).astype(np.float32) + 2.0, mole.subset(slice(0, 3)), image_id=0)
            ld.add_tomogram(rng.standard_normal((22, 22, 22)).astype(np.float32) + 2.0, mole.subset(slice(3, 5)), image_id=1)
            return ld
        return SubtomogramLoader(rng.standard_normal((22, 22, 22)).astype(np.float32) + 2.0, mole, order=1, output_shape=box)

    def fsc_tuple(t):
        return [t.fsc.to_numpy(), np.asarray(t.halfmaps[0]), np.asarray(t.halfmaps[1])]

    def edit(ld, **kw):
        r = ld.average_split(**kw)
        snap = np.array(r, copy=True)
        r -= r.mean()  # what a caller may do with an array it was given
        r *= 3.0
        return snap

    ops = [
        ("average", lambda ld: np.asarray(ld.average())),
        ("average_split(seed=3,n_set=2)", lambda ld: np.array(ld.average_split(seed=3, n_set=2, squeeze=False), copy=True)),
        ("average_split(seed=3)", lambda ld: np.array(ld.average_split(seed=3), copy=True)),
        ("average_split(seed=4,n_set=2)", lambda ld: np.array(ld.average_split(seed=4, n_set=2, squeeze=False), copy=True)),
        ("average_split(seed=3,n_set=2)+edit", lambda ld: edit(ld, seed=3, n_set=2, squeeze=False)),
        ("average_split(seed=3)+edit", lambda ld: edit(ld, seed=3)),
        ("fsc(seed=3,n_set=2)", lambda ld: ld.fsc(seed=3, n_set=2, dfreq=0.1).to_numpy()),
        ("fsc_with_halfmaps(seed=3)", lambda ld: fsc_tuple(ld.fsc_with_halfmaps(seed=3, dfreq=0.1))),
        ("fsc_with_halfmaps(seed=3,zero_norm=False)", lambda ld: fsc_tuple(ld.fsc_with_halfmaps(seed=3, dfreq=0.1, zero_norm=False))),
        ("fsc_with_average(seed=3,n_set=2)", lambda ld: (lambda t: [t[0].to_numpy(), np.asarray(t[1])])(ld.fsc_with_average(seed=3, n_set=2, dfreq=0.1))),
        ("asnumpy", lambda ld: np.asarray(ld.asnumpy())),
    ]
    res = history.explore(make, ops, case["depth"], atol=1e-5, rtol=1e-5)
    viol, seen = [], set()
    for n_ in res["raises_alone"]:
        viol.append((f"{ID}|history|{kind.split('(')[0]}|raises-on-a-fresh-loader|{n_.split('(')[0]}", f"{n_} raised {res['raises_alone_msg'][n_]}"))
    for hist, why in res["failures"]:
        sg = f"{ID}|history|{kind.split('(')[0]}|{hist[-1].split('(')[0]}-after-{hist[-2].split('(')[0]}"
        if sg not in seen:
            seen.add(sg)
            viol.append((sg, f"{kind} loader of {N} molecules: {hist[-1]} after {hist[:-1]} differs from the same call on a fresh loader: {why}"))
    for hist, err in res["errors"]:
        sg = f"{ID}|history|{kind.split('(')[0]}|raised"
        if sg not in seen:
            seen.add(sg)
            viol.append((sg, f"{hist} raised {err}"))
    if res["nondeterministic"]:
        viol.append((f"{ID}|history|{kind.split('(')[0]}|not-reproducible", f"{res['nondeterministic']} differ between two fresh loaders"))
    return {"nontrivial": True, "outcome": f"history|{kind}|{'viol' if viol else 'ok'}", "viol": viol,
            "metrics": {"history_sequences": res["sequences"], "history_calls": res["calls"]}}


def _run_random(case):
    from scipy.spatial.transform import Rotation

    from acryo import BatchLoader, MockLoader, Molecules, SubtomogramLoader

    kind, N, order = case["kind"], case["N"], case["order"]
    rng = np.random.default_rng(case["seed"] * 101 + N)
    box = (5, 4, 6)
    viol = []
    sig = lambda what: f"{ID}|random|{kind.split('(')[0]}|{what}"  # noqa
    if case["rot"] == "identity":
        rots = Rotation.from_quat(np.tile([0, 0, 0, 1.0], (N, 1)))
    else:
        names = ["gen0", "gen1", "gen3", "cube9", "degen3"]
        rots = Rotation.from_matrix(np.array([data.rot_matrix(names[i % len(names)]) for i in range(N)]))
    pos = rng.uniform(9, 13, size=(N, 3))
    mole = Molecules(pos, rots, features={"g2": np.arange(N) % 2})
    if kind == "mock":
        tm = rng.standard_normal((7, 7, 7)).astype(np.float32)
        ld = MockLoader(tm, Molecules(rng.uniform(-1, 1, size=(N, 3)), rots), order=order)
        box = (7, 7, 7)
    elif kind.startswith("batch"):
        counts = _counts(kind, N)
        ld = BatchLoader(order=order, output_shape=box)
        start = 0
        for t, c in enumerate(counts):
            ld.add_tomogram(rng.standard_normal((22, 22, 22)).astype(np.float32), mole.subset(slice(start, start + c)), image_id=t)
            start += c
    else:
        ld = SubtomogramLoader(rng.standard_normal((22, 22, 22)).astype(np.float32), mole, order=order, output_shape=box)
    if kind == "group2":
        avgs = ld.groupby("g2").average()
        import polars as pl

        for k, img in avgs.items():
            kk = k[0] if isinstance(k, tuple) else k
            ref = np.asarray(ld.filter(pl.col("g2") == kk).asnumpy()).mean(axis=0)
            if np.abs(np.asarray(img) - ref).max() > 2e-6 * max(1.0, np.abs(ref).max()):
                viol.append((sig("group-average-vs-stack-mean"), f"group {k}: differs by {np.abs(np.asarray(img) - ref).max():.3g}"))
    else:
        a = np.asarray(ld.average())
        ref = np.asarray(ld.asnumpy()).astype(np.float64).mean(axis=0)
        if a.shape != box or np.abs(a - ref).max() > 2e-6 * max(1.0, np.abs(ref).max()):
            viol.append((sig("average-vs-stack-mean"), f"N={N}, order={order}, {case['rot']}: average differs from the mean of the loaded stack by {np.abs(a - ref).max():.3g}"))
    return {"nontrivial": N >= 2, "outcome": f"random|{kind}|{'viol' if viol else 'ok'}", "viol": viol}
