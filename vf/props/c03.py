"""C03 -- row i of every result belongs to molecule i.

E2: explicit-state breadth-first search over operation histories on loaders.  Every
transition calls the real method (filter / sort / sample / head / tail / replace /
copy / binning(1) / groupby->group loader) on the real loader object; the reference
model takes the same step on a tuple of uids; the frame condition (parent unchanged)
is checked after every call.  States are merged on (loader kind, ordered uid tuple):
every attribute of a molecule (position, tomogram, features, planted displacement)
is a fixed function of its uid, and no operation of the alphabet branches on anything
else, so merged states have the same futures.

In every reached state the observers are evaluated (in worker processes, by replaying
the state's history on fresh objects): loading, apply, features, binning(2) on
fingerprint tomograms whose voxel value names tomogram and position; align, score,
landscape and classify on tomograms with one blob per molecule displaced by its own
d(uid); group observers (partition, re-iteration, count, average, align, filter /
head / tail / sample of groups).  Row i must show what a single-molecule loader of
uid_i shows.
"""
from __future__ import annotations

import collections
import itertools

import numpy as np

ID = "C03"
LEVEL = "model_checking"
ENGINE = "E2 explicit-state BFS over operation histories (+E1 observers per state)"
TECHNIQUE = ("explicit-state breadth-first exploration of loader operation histories to closure on the real objects, "
             "reference model on uid tuples at every transition, per-row observers in every reached state")
DESIGN_REF = "DESIGN.md section 3, C03"
RULE = (
    "states = (initial construction, ordered uid tuple) reached by BFS to closure from 6 initial loaders (1 single-tomogram, "
    "6 batch constructions incl. re-used image id, from_loaders, reversed order, numpy tomogram before dask tomograms, two auto-id batches merged by add_loader(BatchLoader)); transitions = real loader methods; "
    "every state is observed by 9 per-row observers and 8 group observers; non-trivial state = at least 2 molecules and not the initial order"
)
LEVEL_TEXT = ("all loader states reachable by the operation alphabet from the initial constructions are enumerated to closure; "
              "each transition is validated against the reference model and each state's per-row results against single-molecule references")
ASSUMPTIONS = [
    "universe: 5 molecules (thorough 6) in 2 (thorough 3) tomograms of (20,21,22); integer positions; molecule uid has its own cube-rotation orientation (one per axis-permutation class) so that per-molecule keyword arguments (quaternion, position) of tilt-model tasks are observable; align/score/landscape/classify observers run with a (-60,60) single-axis tilt model",
    "state merging on (kind, uid tuple) is sound because every molecule attribute is a function of uid (DESIGN.md E2)",
    "sample() is specified as a relation: any subset of the requested size; sort ties in any order",
    "per-uid reference values come from single-molecule loaders of the library itself (a one-row loader cannot mis-order rows)",
    "added during the seeding waves: load() with negative / stepped / reversed slices, unsorted and repeating lists, generators; group.apply, binning with both compute flags, reshape, loaders accessor, per-uid orientations",
]

TSHAPE = (20, 21, 22)
POS = [(5, 5, 5), (5, 14, 8), (13, 6, 15), (14, 15, 6), (9, 10, 16), (15, 9, 11), (8, 16, 12)]  # the last one only for the extra molecule of the aliasing probes
DISP = [(1, 0, 0), (0, 1, 0), (0, 0, 1), (-1, 0, 0), (0, -1, 0), (0, 0, -1), (1, 0, 0)]
KEY = [3, 1, 4, 0, 2, 5, 6]
KEY2 = [1, 0, 1, 0, 2, 2, 0]
TILT = (-60.0, 60.0)


def _orientations():
    """one cube rotation per uid, one from each of the six axis-permutation classes: the images of the beam axis and of the
    tilt axis differ (as unsigned axes) between any two uids, so every uid has its own missing-wedge mask in its own frame"""
    out = []
    for perm in itertools.permutations(range(3)):
        m = np.zeros((3, 3))
        for r, c in enumerate(perm):
            m[r, c] = 1.0
        if np.linalg.det(m) < 0:
            m[2] *= -1
        out.append(m)
    return out


ORI = _orientations()


def _n(tier):
    return (5, 2) if tier == "quick" else (6, 3)


def tomo_of(uid, ntomo):
    return uid % ntomo


def code(t, z, y, x):
    return 32768.0 * t + 1024.0 * z + 32.0 * y + x


def fingerprint(t):
    z, y, x = np.meshgrid(*[np.arange(n, dtype=np.float64) for n in TSHAPE], indexing="ij")
    return code(t, z, y, x).astype(np.float32)


def blob_tomo(t, nmol, ntomo):
    g = np.stack(np.meshgrid(*[np.arange(n, dtype=np.float64) for n in TSHAPE], indexing="ij"), -1)
    out = np.zeros(TSHAPE, dtype=np.float64)
    for u in range(nmol):
        if tomo_of(u, ntomo) == t:
            c = np.asarray(POS[u], dtype=np.float64) + np.asarray(DISP[u])
            out += np.exp(-((g - c) ** 2).sum(-1) / 2.0)
    return out.astype(np.float32)


def template():
    g = np.stack(np.meshgrid(*[np.arange(5, dtype=np.float64)] * 3, indexing="ij"), -1)
    return np.exp(-((g - 2.0) ** 2).sum(-1) / 2.0).astype(np.float32)


def molecules(uids):
    import polars as pl

    from scipy.spatial.transform import Rotation

    from acryo import Molecules

    uids = list(uids)
    pos = np.array([POS[u] for u in uids], dtype=np.float32).reshape(-1, 3)
    feats = pl.DataFrame({"uid": pl.Series(uids, dtype=pl.Int64), "g": pl.Series([u % 2 for u in uids], dtype=pl.Int64),
                          "k": pl.Series([KEY[u] for u in uids], dtype=pl.Int64), "k2": pl.Series([KEY2[u] for u in uids], dtype=pl.Int64)})
    return Molecules(pos, Rotation.from_matrix(np.stack([ORI[u % len(ORI)] for u in uids])) if uids else None, features=feats)


_TOMO_CACHE = {}


def tomos(universe, nmol, ntomo):
    key = (universe, nmol, ntomo)
    if key not in _TOMO_CACHE:
        _TOMO_CACHE[key] = [fingerprint(t) if universe == "F" else blob_tomo(t, nmol, ntomo) for t in range(ntomo)]
    return _TOMO_CACHE[key]


INITS = ["single", "batch", "batch-rev", "batch-reuse-id", "from_loaders", "batch-mixed-arrays", "nested-batches"]


def build_initial(name, universe, nmol, ntomo):
    """returns (loader, expected uid tuple)"""
    from acryo import BatchLoader, SubtomogramLoader

    T = tomos(universe, nmol, ntomo)
    kw = dict(order=0, scale=1.0, output_shape=(3, 3, 3))
    allu = list(range(nmol))
    if name == "single":
        # all molecules of tomogram 0 (the others would load another tomogram's content)
        uids = [u for u in allu if tomo_of(u, ntomo) == 0]
        return SubtomogramLoader(T[0], molecules(uids), **kw), tuple(uids)
    by_t = [[u for u in allu if tomo_of(u, ntomo) == t] for t in range(ntomo)]
    if name == "batch":
        ld = BatchLoader(**kw)
        order = []
        for t in range(ntomo):
            ld.add_tomogram(T[t], molecules(by_t[t]), image_id=t)
            order += by_t[t]
        return ld, tuple(order)
    if name == "batch-mixed-arrays":
        # an in-memory tomogram registered before lazily loaded (dask) ones
        from dask import array as da

        ld = BatchLoader(**kw)
        order = []
        for t in range(ntomo):
            ld.add_tomogram(T[t] if t == 0 else da.from_array(T[t], chunks=(10, 11, 8)), molecules(by_t[t]), image_id=t)
            order += by_t[t]
        return ld, tuple(order)
    if name == "batch-rev":
        ld = BatchLoader(**kw)
        order = []
        for t in reversed(range(ntomo)):
            ld.add_tomogram(T[t], molecules(by_t[t]), image_id=t)
            order += by_t[t]
        return ld, tuple(order)
    if name == "batch-reuse-id":
        ld = BatchLoader(**kw)
        first, rest = by_t[0][:1], by_t[0][1:]
        ld.add_tomogram(T[0], molecules(first), image_id=0)
        order = list(first)
        for t in range(1, ntomo):
            ld.add_tomogram(T[t], molecules(by_t[t]), image_id=t)
            order += by_t[t]
        ld.add_tomogram(T[0], molecules(rest), image_id=0)
        order += rest
        return ld, tuple(order)
    if name == "nested-batches":
        # two batch loaders built with automatic image ids (both start at 0), merged with add_loader(BatchLoader): the ids of
        # the nested loader collide with the receiver's and must be re-issued, not reused (wave 10 seed C09j)
        ld = BatchLoader(**kw)
        for t in range(max(1, ntomo - 1)):
            ld.add_tomogram(T[t], molecules(by_t[t]))
        other = BatchLoader(**kw)
        for t in range(max(1, ntomo - 1), ntomo):
            other.add_tomogram(T[t], molecules(by_t[t]))
        ld.add_loader(other)
        return ld, tuple(itertools.chain(*by_t))
    if name == "from_loaders":
        subs = [SubtomogramLoader(T[t], molecules(by_t[t]), **kw) for t in range(ntomo)]
        ld = BatchLoader.from_loaders(subs, **kw)
        return ld, tuple(itertools.chain(*by_t))
    raise KeyError(name)


# ---------------------------------------------------------------- the operation alphabet
def _ops():
    import polars as pl

    ops = []

    def add(name, fn, model, enabled=lambda u: True):
        ops.append((name, fn, model, enabled))

    add("filter(g==0)", lambda l: l.filter(pl.col("g") == 0), lambda u: ("seq", tuple(x for x in u if x % 2 == 0)))
    add("filter(k>=2)", lambda l: l.filter(pl.col("k") >= 2), lambda u: ("seq", tuple(x for x in u if KEY[x] >= 2)))
    add("filter(bool-list)", lambda l: l.filter([i % 2 == 1 for i in range(l.count())]), lambda u: ("seq", tuple(x for i, x in enumerate(u) if i % 2 == 1)))
    add("sort(k)", lambda l: l.replace(molecules=l.molecules.sort("k")), lambda u: ("seq", tuple(sorted(u, key=lambda x: KEY[x]))))
    add("sort(k,desc)", lambda l: l.replace(molecules=l.molecules.sort("k", descending=True)), lambda u: ("seq", tuple(sorted(u, key=lambda x: -KEY[x]))))
    add("sort(k2)", lambda l: l.replace(molecules=l.molecules.sort("k2")), lambda u: ("sorted-by", KEY2, frozenset(u)))
    for n in (0, 1, 2, 3, 7):  # none, one, some, and more than there are
        add(f"head({n})", lambda l, n=n: l.head(n), lambda u, n=n: ("seq", tuple(u[:n])))
        add(f"tail({n})", lambda l, n=n: l.tail(n), lambda u, n=n: ("seq", tuple(u[len(u) - n:]) if n < len(u) else tuple(u)))
    for n in (1, 2, 3):
        for seed in (0, 1):
            add(f"sample({n},{seed})", lambda l, n=n, seed=seed: l.sample(n, seed=seed), lambda u, n=n: ("subset", n, frozenset(u)), lambda u, n=n: len(u) >= n)
    add("copy", lambda l: l.copy(), lambda u: ("seq", tuple(u)))
    add("replace(order=0)", lambda l: l.replace(order=0), lambda u: ("seq", tuple(u)))
    add("binning(1)", lambda l: l.binning(1), lambda u: ("seq", tuple(u)))
    add("reshape(shape)", lambda l: l.reshape(shape=(3, 3, 3)), lambda u: ("seq", tuple(u)))
    add("reshape(template)", lambda l: l.reshape(template=np.zeros((3, 3, 3), dtype=np.float32)), lambda u: ("seq", tuple(u)))
    for gv in (0, 1):
        def grp(l, gv=gv):
            for key, sub in l.groupby("g"):
                if key == gv or key == (gv,):
                    return sub
            return None
        add(f"groupby(g)[{gv}]", grp, lambda u, gv=gv: ("seq", tuple(x for x in u if x % 2 == gv)), lambda u, gv=gv: any(x % 2 == gv for x in u))
    return ops


def apply_history(init, hist, universe, nmol, ntomo):
    ops = {o[0]: o for o in _ops()}
    ld, _ = build_initial(init, universe, nmol, ntomo)
    for name in hist:
        ld = ops[name][1](ld)
    return ld


def loader_uids(ld):
    return tuple(int(u) for u in ld.molecules.features["uid"].to_list())


def digest(ld):
    m = ld.molecules
    return (loader_uids(ld), m.pos.tobytes(), m.quaternion().tobytes(), str(m.features.to_dict(as_series=False)),
            ld.order, ld.scale, tuple(ld.output_shape) if isinstance(ld.output_shape, tuple) else None, ld.corner_safe,
            tuple(sorted(map(str, getattr(ld, "_images", {}).keys()))))


def model_accepts(spec, got):
    kind = spec[0]
    if kind == "seq":
        return tuple(got) == tuple(spec[1])
    if kind == "subset":
        _, n, pool = spec
        return len(got) == n and len(set(got)) == n and set(got) <= pool
    if kind == "sorted-by":
        _, key, pool = spec
        return set(got) == set(pool) and len(got) == len(pool) and all(key[a] <= key[b] for a, b in zip(got, got[1:]))
    raise KeyError(kind)


def explore(tier, report):
    """BFS on the real loaders (fingerprint universe). Returns the list of states as (init, history, uids)."""
    from vf.core import acryo_frame

    nmol, ntomo = _n(tier)
    ops = _ops()
    seen = {}
    order = []
    frontier = collections.deque()
    transitions = 0
    for init in INITS:
        ld, want = build_initial(init, "F", nmol, ntomo)
        got = loader_uids(ld)
        kind = type(ld).__name__
        if got != want:
            report.violations.append((f"{ID}|construct|{init}|uid-order", f"constructed loader holds uids {got}, expected {want}", {"engine": "E2", "init": init, "history": []}))
        key = (init, got)
        seen[key] = (init, [])
        order.append((init, [], got, kind))
        frontier.append((init, [], ld))
    max_depth = 0
    while frontier:
        init, hist, ld = frontier.popleft()
        uids = loader_uids(ld)
        for name, fn, model, enabled in ops:
            if not enabled(uids):
                continue
            before = digest(ld)
            case = {"engine": "E2", "init": init, "history": hist + [name], "tier": tier}
            try:
                new = fn(ld)
            except Exception as e:  # noqa
                report.violations.append((f"{ID}|transition|{name.split('(')[0]}|raised-{type(e).__name__}",
                                          f"{name} after {hist} on {init} raised {type(e).__name__}: {e} at {acryo_frame(e.__traceback__)}", case))
                continue
            transitions += 1
            if new is None:
                report.violations.append((f"{ID}|transition|{name.split('(')[0]}|group-missing", f"{name} after {hist} on {init}: group not produced", case))
                continue
            if digest(ld) != before:
                report.violations.append((f"{ID}|transition|{name.split('(')[0]}|parent-modified", f"{name} after {hist} on {init} modified the loader it was derived from", case))
            got = loader_uids(new)
            if not model_accepts(model(uids), got):
                report.violations.append((f"{ID}|transition|{name.split('(')[0]}|wrong-molecules", f"{name} after {hist} on {init}: uids {uids} -> {got}, reference model says {model(uids)[:2]}", case))
                continue
            if len(got) == 0:
                continue
            key = (init, got)
            if key not in seen:
                seen[key] = (init, hist + [name])
                order.append((init, hist + [name], got, type(new).__name__))
                frontier.append((init, hist + [name], new))
                max_depth = max(max_depth, len(hist) + 1)
    return order, transitions, max_depth


# ---------------------------------------------------------------- observers (run in workers)
_REF = {}


def refs(nmol, ntomo):
    """per-uid reference values from single-molecule loaders"""
    key = (nmol, ntomo)
    if key in _REF:
        return _REF[key]
    import dask

    from acryo import SubtomogramLoader

    dask.config.set(scheduler="synchronous")
    TB = tomos("B", nmol, ntomo)
    tm = template()
    out = {}
    for u in range(nmol):
        ld = SubtomogramLoader(TB[tomo_of(u, ntomo)], molecules([u]), order=1, scale=1.0, output_shape=(5, 5, 5))
        sc = float(ld.score([tm], tilt=TILT)[0][0])
        alm = ld.align(tm, max_shifts=1.2, tilt=TILT).molecules
        al = alm.features
        sh = (float(al["align-dz"][0]), float(al["align-dy"][0]), float(al["align-dx"][0]))
        l = np.asarray(ld.construct_landscape(tm, max_shifts=1.0, tilt=TILT).compute())[0]
        # the planted displacement seen in the molecule's own frame (the library's rotator acts on (z, y, x) vectors)
        local = tuple(int(round(float(v))) for v in np.atleast_2d(alm.rotator.inv().apply(np.asarray(DISP[u], dtype=np.float64)))[0])
        out[u] = {"score": sc, "shift": sh, "newpos": alm.pos[0].astype(np.float64), "landscape": l, "score_al": float(al["score"][0]),
                  "lmax": tuple(int(v) - 1 for v in np.unravel_index(int(np.argmax(l)), l.shape)), "local_disp": local}
    _REF[key] = out
    return out


def _centre(img):
    return float(img[tuple(s // 2 for s in img.shape)])


def _corner(img):
    return float(img[0, 0, 0])


def cases(tier, seed):
    return []  # states are produced by explore() in extra()


def run_case(case):
    """Observe one state: case = {init, history, uids, tier}"""
    import dask
    import polars as pl

    dask.config.set(scheduler="synchronous")
    tier = case["tier"]
    nmol, ntomo = _n(tier)
    init, hist = case["init"], case["history"]
    uids = tuple(case["uids"])
    N = len(uids)
    kind = "batch" if init != "single" else "single"
    viol = []
    seen = set()

    def bad(obs, what, msg):
        s = f"{ID}|observer|{obs}|{what}|{kind}"
        if s not in seen:
            seen.add(s)
            viol.append((s, f"state {init}+{hist} (uids {uids}): {msg}"))

    LF = apply_history(init, hist, "F", nmol, ntomo)
    if loader_uids(LF) != uids and not any(h.startswith("sample") or h.startswith("sort(k2") for h in hist):
        bad("replay", "nondeterministic", f"replaying the history gave uids {loader_uids(LF)}")
    uids = loader_uids(LF)
    want = [code(tomo_of(u, ntomo), *POS[u]) for u in uids]
    # o1 asnumpy
    arr = np.asarray(LF.asnumpy())
    got = [_centre(a) for a in arr]
    if arr.shape[0] != N or got != want:
        bad("asnumpy", "row-mismatch", f"centre voxels decode to {[(int(v // 32768), int(v % 32768 // 1024), int(v % 1024 // 32), int(v % 32)) for v in got]} but molecules are (tomogram, pos) {[(tomo_of(u, ntomo),) + POS[u] for u in uids]}")
    # o2 load(i), load_iter
    got2 = [_centre(np.asarray(LF.load(i))) for i in range(N)]
    if got2 != want:
        bad("load(i)", "row-mismatch", f"load(i) centre codes {got2} != {want}")
    # o2b load(index specification): negative integers, slices (any step), lists / tuples / generators that are unsorted or
    # repeat an index - row k of the result is molecule spec[k]
    if N:
        specs = [("-1", -1, [N - 1]), ("slice(None)", slice(None), list(range(N))), ("slice(None,None,-1)", slice(None, None, -1), list(range(N))[::-1]),
                 ("slice(1,None,2)", slice(1, None, 2), list(range(N))[1::2]), ("slice(-2,None)", slice(-2, None), list(range(N))[-2:])]
        if N >= 2:
            specs += [("[last,0]", [N - 1, 0], [N - 1, 0]), ("(0,last,0)", (0, N - 1, 0), [0, N - 1, 0]), ("generator(reversed)", "gen", list(range(N))[::-1]),
                      ("[0]", [0], [0])]  # (an ndarray of indices raises TypeError: it passes the SupportsIndex test; loud, left alone)
        for sname, spec, idx in specs:
            if not idx:
                continue  # an empty selection raises "Need array(s) to stack" (loud; nothing to mis-assign)
            if isinstance(spec, str):
                spec = (i for i in idx)
            try:
                a = np.asarray(LF.load(spec))
            except Exception as e:  # noqa
                bad("load(spec)", f"raised-{type(e).__name__}", f"load({sname}) raised {type(e).__name__}: {e}")
                continue
            a = a[None] if a.ndim == 3 else a
            gotx = [_centre(x) for x in a]
            if gotx != [want[i] for i in idx]:
                bad("load(spec)", "row-mismatch", f"load({sname}) centre codes {gotx} != {[want[i] for i in idx]} (molecules {idx})")
    got3 = [_centre(np.asarray(a)) for a in LF.load_iter()]
    if got3 != want:
        bad("load_iter", "row-mismatch", f"load_iter centre codes {got3} != {want}")
    # o3 apply
    df = LF.apply(_centre, schema=["c"])
    if df["c"].to_list() != want:
        bad("apply", "row-mismatch", f"apply(centre) rows {df['c'].to_list()} != {want}")
    # o4 molecule attributes stay with their uid
    m = LF.molecules
    if [tuple(int(v) for v in p) for p in m.pos] != [POS[u] for u in uids] or m.features["k"].to_list() != [KEY[u] for u in uids]:
        bad("molecules", "attributes-detached", "positions / features no longer those of the row's uid")
    if kind == "batch" and m.features["image-id"].to_list() != [tomo_of(u, ntomo) for u in uids]:
        bad("molecules", "image-id-detached", f"image-id {m.features['image-id'].to_list()} for uids {uids}")
    if kind == "batch":
        # the per-tomogram view of a batch loader: loaders[image id], iteration and len
        present = sorted({tomo_of(u, ntomo) for u in uids})
        acc = LF.loaders
        if len(acc) != len(present):
            bad("loaders", "len", f"len(loaders) = {len(acc)} for image ids {present}")
        for t in present:
            sub = acc[t]
            wu = tuple(u for u in uids if tomo_of(u, ntomo) == t)
            gu = loader_uids(sub)
            gv = [_centre(a) for a in np.asarray(sub.asnumpy())]
            if gu != wu or gv != [code(t, *POS[u]) for u in wu]:
                bad("loaders", "getitem", f"loaders[{t}] holds uids {gu} and loads centre codes {gv}; expected uids {wu} of tomogram {t}")
        it = [(loader_uids(sub), [_centre(a) for a in np.asarray(sub.asnumpy())]) for sub in acc]
        if sorted(u for us, _ in it for u in us) != sorted(uids) or any(vs != [code(tomo_of(u, ntomo), *POS[u]) for u in us] for us, vs in it):
            bad("loaders", "iteration", f"iterating loaders gives {it}")
    # o9 binning(2): block sums of the fingerprint at floor(pos/2)
    wantb = []
    for u in uids:
        z0, y0, x0 = [2 * (p // 2) for p in POS[u]]
        wantb.append(8 * 32768.0 * tomo_of(u, ntomo) + 1024.0 * (8 * z0 + 4) + 32.0 * (8 * y0 + 4) + (8 * x0 + 4))
    for comp in ((False, True) if kind == "batch" else (None,)):
        Lb = LF.binning(2, compute=comp) if kind == "batch" else LF.binning(2)
        gotb = [float(a[0, 0, 0]) for a in np.asarray(Lb.asnumpy(output_shape=(1, 1, 1)))]
        if gotb != wantb:
            bad(f"binning(2{'' if comp is None else ',compute=%s' % comp})", "row-mismatch", f"binned centre sums {gotb} != {wantb}")
    if loader_uids(LF) != uids:
        bad("binning(2)", "parent-modified", "binning changed the parent loader")

    # blob universe
    R = refs(nmol, ntomo)
    tm = template()
    LB = apply_history(init, hist, "B", nmol, ntomo).replace(order=1, output_shape=(5, 5, 5))
    LB = LB.replace(molecules=LB.molecules.subset([list(loader_uids(LB)).index(u) for u in uids])) if loader_uids(LB) != uids else LB
    sc = np.asarray(LB.score([tm], tilt=TILT)[0], dtype=np.float64)
    if len(sc) != N or np.abs(sc - np.array([R[u]["score"] for u in uids])).max() > 1e-5:
        bad("score", "row-mismatch", f"scores {np.round(sc, 4).tolist()} != per-molecule references {[round(R[u]['score'], 4) for u in uids]}")
    al = LB.align(tm, max_shifts=1.2, tilt=TILT)
    if loader_uids(al) != uids:
        bad("align", "uid-order", f"aligned loader holds {loader_uids(al)}")
    else:
        f = al.molecules.features
        sh = [(float(f["align-dz"][i]), float(f["align-dy"][i]), float(f["align-dx"][i])) for i in range(N)]
        if any(np.abs(np.array(sh[i]) - np.array(R[u]["shift"])).max() > 0.02 for i, u in enumerate(uids)):
            bad("align", "row-mismatch", f"shift features {sh} != per-molecule references {[R[u]['shift'] for u in uids]} (planted {[DISP[u] for u in uids]})")
        newpos = al.molecules.pos
        if any(np.abs(newpos[i] - R[u]["newpos"]).max() > 0.02 for i, u in enumerate(uids)):
            bad("align", "position-row-mismatch", f"aligned positions {np.round(newpos, 3).tolist()} are not those of the per-molecule references {[np.round(R[u]['newpos'], 3).tolist() for u in uids]}")
        if any(abs(float(f["score"][i]) - R[u]["score_al"]) > 1e-4 for i, u in enumerate(uids)):
            bad("align", "score-row-mismatch", f"alignment scores {[round(float(v), 5) for v in f['score']]} != per-molecule references {[round(R[u]['score_al'], 5) for u in uids]}")
        if not np.allclose(al.molecules.quaternion(), LB.molecules.quaternion(), atol=1e-6) and not np.allclose(np.abs(np.sum(al.molecules.quaternion() * LB.molecules.quaternion(), axis=1)), 1.0, atol=1e-6):
            bad("align", "orientation-row-mismatch", "translation-only alignment changed the orientation of some row")
    lds = np.asarray(LB.construct_landscape(tm, max_shifts=1.0, tilt=TILT).compute())
    if lds.shape[0] != N:
        bad("landscape", "row-count", f"{lds.shape[0]} landscapes for {N} molecules")
    else:
        am = [tuple(int(v) - 1 for v in np.unravel_index(int(np.argmax(l)), l.shape)) for l in lds]
        if am != [R[u]["local_disp"] for u in uids]:
            bad("landscape", "row-mismatch", f"landscape maxima at {am}, planted (in each molecule's frame) {[R[u]['local_disp'] for u in uids]}")
        if any(l.shape != R[u]["landscape"].shape or np.abs(l - R[u]["landscape"]).max() > 1e-4 for l, u in zip(lds, uids)):
            bad("landscape", "values-row-mismatch", f"landscape of some row differs from its molecule's single-molecule landscape by {max(float(np.abs(l - R[u]['landscape']).max()) for l, u in zip(lds, uids)):.3g}")
    if N >= 4:
        res = LB.classify(tm, n_components=2, n_clusters=2, seed=0, tilt=TILT)
        cl = res.loader
        if loader_uids(cl) != uids or len(cl.molecules.features["cluster"]) != N or not np.array_equal(cl.molecules.pos, LB.molecules.pos):
            bad("classify", "row-mismatch", f"classified loader holds uids {loader_uids(cl)}")

    # aliasing: mutating a derived batch loader (add_tomogram) must not reach the loader it was derived from, nor the reverse
    if kind == "batch":
        import polars as pl2  # noqa

        extra_uid = nmol  # a molecule that is in no initial loader
        for dname, derive in (("copy", lambda l: l.copy()), ("replace(order)", lambda l: l.replace(order=0)), ("binning(1)", lambda l: l.binning(1)),
                              ("replace(output_shape)", lambda l: l.replace(output_shape=(3, 3, 3))), ("filter(all)", lambda l: l.filter(pl.col("uid") >= 0)),
                              ("head(N)", lambda l: l.head(N))):
            P = apply_history(init, hist, "F", nmol, ntomo)
            dP = digest(P)
            C = derive(P)
            C.add_tomogram(fingerprint(7), molecules([extra_uid]), image_id=99)
            if digest(P) != dP:
                bad(f"alias.{dname}", "parent-modified-by-child-mutation", f"add_tomogram() on the loader returned by {dname} changed its parent (images {sorted(map(str, P.images.keys()))})")
            dC = digest(C)
            P.add_tomogram(fingerprint(6), molecules([extra_uid]), image_id=99)
            if digest(C) != dC:
                bad(f"alias.{dname}", "child-modified-by-parent-mutation", f"add_tomogram() on the parent changed the loader derived by {dname}")
            cu = loader_uids(C)
            gotc = [_centre(a) for a in np.asarray(C.asnumpy())]
            wantc = [code(7 if u == extra_uid else tomo_of(u, ntomo), *POS[u]) for u in cu]
            if cu != uids + (extra_uid,) or gotc != wantc:
                bad(f"alias.{dname}", "row-mismatch-after-sibling-mutation", f"derived loader (uids {cu}) loads centre codes {gotc}, expected {wantc}")
            gotp = [_centre(a) for a in np.asarray(P.asnumpy())]
            wantp = [code(6 if u == extra_uid else tomo_of(u, ntomo), *POS[u]) for u in loader_uids(P)]
            if gotp != wantp:
                bad(f"alias.{dname}", "parent-row-mismatch", f"parent loads centre codes {gotp}, expected {wantp}")

    # group observers
    if N >= 2:
        G = LF.groupby("g")
        g1 = [(k, loader_uids(l)) for k, l in G]
        g2 = [(k, loader_uids(l)) for k, l in G]
        if g1 != g2:
            bad("group", "iteration-not-repeatable", f"first iteration {g1}, second {g2}")
        allu = list(itertools.chain(*[u for _, u in g1]))
        if sorted(allu) != sorted(uids) or any(any(x % 2 != (k[0] if isinstance(k, tuple) else k) for x in u) for k, u in g1):
            bad("group", "not-a-partition", f"groups {g1} of {uids}")
        if any(tuple(x for x in uids if x % 2 == (k[0] if isinstance(k, tuple) else k)) != u for k, u in g1):
            bad("group", "order-in-group", f"groups {g1} do not keep the parent's order {uids}")
        cnt = G.count()
        if {k: len(u) for k, u in g1} != dict(cnt):
            bad("group", "count", f"count() = {dict(cnt)} but groups are {g1}")
        # group.apply with as many functions as a group may have members (2): one row per molecule, one column per function
        ap = LF.groupby("g").apply([_centre, _corner], schema=["centre", "corner"])
        for k, u in g1:
            df = ap[k]
            wc = [code(tomo_of(x, ntomo), *POS[x]) for x in u]
            if df.columns != ["centre", "corner"] or df.shape[0] != len(u) or df["centre"].to_list() != wc:
                bad("group.apply", "row-mismatch", f"group {k} (uids {u}): apply([centre, corner]) gives columns {df.columns}, centre column {df['centre'].to_list() if 'centre' in df.columns else None}, expected one row per molecule with centre codes {wc}")
        avg = G.average()
        for k, u in g1:
            w = float(np.mean([code(tomo_of(x, ntomo), *POS[x]) for x in u]))
            if abs(_centre(avg[k]) - w) > 0.51:
                bad("group.average", "wrong-members", f"group {k} average centre {_centre(avg[k])} but mean code of its molecules {w}")
        for opname, gfn, mfn in (("filter", lambda g: g.filter(pl.col("k") >= 2), lambda u: tuple(x for x in u if KEY[x] >= 2)),
                                 ("head", lambda g: g.head(1), lambda u: u[:1]), ("tail", lambda g: g.tail(1), lambda u: u[-1:]),
                                 ("sample", lambda g: g.sample(1, seed=0), None)):
            G2 = gfn(LF.groupby("g"))
            a1 = [(k, loader_uids(l)) for k, l in G2]
            a2 = [(k, loader_uids(l)) for k, l in G2]
            if a1 != a2:
                bad(f"group.{opname}", "iteration-not-repeatable", f"first iteration {a1}, second {a2}")
            for (k, u), (_, pu) in zip(a1, g1):
                if mfn is not None and tuple(u) != tuple(mfn(pu)):
                    bad(f"group.{opname}", "wrong-molecules", f"group {k}: {pu} -> {u}")
                if mfn is None and not (len(u) == 1 and set(u) <= set(pu)):
                    bad(f"group.{opname}", "wrong-molecules", f"group {k}: {pu} -> {u}")
            try:
                c2 = G2.count()
                if sum(c2.values()) != sum(len(u) for _, u in a1):
                    bad(f"group.{opname}", "count-after-iteration", f"count() = {dict(c2)} but first iteration gave {a1}")
            except Exception as e:  # noqa
                bad(f"group.{opname}", f"raised-{type(e).__name__}", str(e))
        GB = LB.groupby("g")
        ga = GB.align(tm, max_shifts=1.2, tilt=TILT)
        rows = [(loader_uids(l), l.molecules.features) for _, l in ga]
        if sorted(itertools.chain(*[u for u, _ in rows])) != sorted(uids):
            bad("group.align", "molecules-lost", f"aligned groups hold {[u for u, _ in rows]} of {uids}")
        for u_, f in rows:
            for i, x in enumerate(u_):
                sh = (float(f["align-dz"][i]), float(f["align-dy"][i]), float(f["align-dx"][i]))
                if np.abs(np.array(sh) - np.array(R[x]["shift"])).max() > 0.02 or abs(float(f["score"][i]) - R[x]["score_al"]) > 1e-4:
                    bad("group.align", "row-mismatch", f"uid {x} got shift {sh} score {float(f['score'][i]):.5f}, reference {R[x]['shift']} {R[x]['score_al']:.5f}")
        ga2 = LB.groupby("g").head(2).align(tm, max_shifts=1.2, tilt=TILT)
        n2 = sum(l.count() for _, l in ga2)
        if n2 != sum(min(2, len(u)) for _, u in g1):
            bad("group.head.align", "molecules-lost", f"{n2} molecules after groupby().head(2).align(), expected {sum(min(2, len(u)) for _, u in g1)}")
        sp = LF.groupby("g").average_split(seed=0)
        if set(sp.keys()) != {k for k, _ in g1} or any(v.shape != (2, 3, 3, 3) for v in sp.values()):
            bad("group.average_split", "shape", f"keys {list(sp.keys())}, shapes {[v.shape for v in sp.values()]}")
    nontrivial = N >= 2 and len(hist) > 0
    return {"nontrivial": bool(nontrivial), "outcome": f"{kind}|N={N}|{'viol' if viol else 'ok'}", "viol": viol}


def replay_case(case):
    if case.get("uids") is not None:
        return run_case(case)
    # a transition-level counterexample: re-run the history and report what the last step does
    tier = case.get("tier", "quick")
    nmol, ntomo = _n(tier)
    ops = {o[0]: o for o in _ops()}
    ld, _ = build_initial(case["init"], "F", nmol, ntomo)
    viol = []
    for name in case["history"]:
        u = loader_uids(ld)
        before = digest(ld)
        new = ops[name][1](ld)
        if digest(ld) != before:
            viol.append((f"{ID}|transition|{name.split('(')[0]}|parent-modified", f"{name} modified its parent"))
        if not model_accepts(ops[name][2](u), loader_uids(new)):
            viol.append((f"{ID}|transition|{name.split('(')[0]}|wrong-molecules", f"{name}: {u} -> {loader_uids(new)}"))
        ld = new
    return {"nontrivial": True, "outcome": "replay", "viol": viol}


def extra(tier, seed, report):
    from vf.core import run_cases

    states, transitions, max_depth = explore(tier, report)
    cases_ = [{"engine": "E2", "init": i, "history": h, "uids": list(u), "tier": tier} for i, h, u, _ in states]
    run_cases(report, "vf.props.c03", cases_, chunk=2)
    report.cov["states"] = len(states)
    report.cov["transitions"] = transitions
    report.cov["traces_validated_against_impl"] = len(states)
    report.cov["max_depth"] = max_depth
    report.cov["closure_reached"] = True
    report.cov["alphabet"] = [o[0] for o in _ops()]
    report.cov["initial_states"] = INITS
    report.cov["explanation"] = ("transitions are executed on the real loader objects (no separate model to conform): the BFS itself is the "
                                 "implementation trace; traces_validated = states whose history was replayed on fresh objects in a worker and observed")
    report.samples = [{"init": i, "history": h, "uids": list(u)} for i, h, u, _ in states[:: max(1, len(states) // 5)]][:6]
