"""C15 -- binned loaders look at the same physical region.

E1 + E5: image shape x bin size x array kind x compute flag x loader kind x box x order x
scale; molecules on every admissible site of the binned grid (one axis swept, plus a
diagonal).  The binned image is compared with explicit b^3 block sums (on every basis
impulse for the small shape: the exact operator), and every sub-volume of the binned
loader with the block sum of the b-times-larger sub-volume of the original loader.
"""
from __future__ import annotations

import itertools

import numpy as np

ID = "C15"
LEVEL = "exploration"
DESIGN_REF = "DESIGN.md section 3, C15"
RULE = (
    "full product image shape x b (1..6) x array kind x compute x loader kind x box x order x scale; every case places molecules on "
    "all binned-grid sites along one axis and a diagonal for which the b*s box lies inside the image; basis-impulse operator "
    "extraction for bin_image on shape (4,5,6); non-trivial = b >= 2; distinct = distinct case tuples"
)
ASSUMPTIONS = [
    "image shapes (6,6,6), (7,8,9), (12,13,14); boxes s in {1,2,3,(2,3,1)}; positions restricted to the binned grid (integer binned coordinate for odd s, half-integer for even s): off-grid positions interpolate differently on the two sides and the statement does not claim them",
    "block-sum identity compared to 1e-5 relative for every order (both sides read on their integer grids)",
    "batch loaders hold 2 or 3 images of equal shape and different content",
    "added during the seeding waves: integer / float64 images, mixed numpy / dask batches, Fortran-ordered and strided numpy images, shapes whose leading axes are multiples of b",
]

IMG_SHAPES = [(6, 6, 6), (7, 8, 9), (12, 13, 14)]
BOXES = [(1, 1, 1), (2, 2, 2), (3, 3, 3), (2, 3, 1)]
KINDS = ["numpy", "dask:whole", "dask:4,5,3", "mixed:numpy-first", "mixed:dask-first",  # mixed: batch loaders holding in-memory and lazy images
         "numpy:F", "numpy:strided"]  # memory layout: Fortran order (a transposed MRC volume), a strided view of a larger array


def AXES(tier):
    return {"image_shape": IMG_SHAPES, "b": list(range(1, 7)), "array": KINDS, "compute": [True, False],
            "loader": ["single", "batch2", "batch3"], "box": BOXES, "order": [0, 1, 3], "scale": [1.0, 0.7]}


def cases(tier, seed):
    """thorough: the full product.  quick: the full product of (image shape, b, box, order) with the remaining axes
    (array kind, compute, loader kind, scale) assigned round-robin so that every value - and every (array, compute,
    loader) triple - is visited many times, plus every (loader, array, compute) triple on a fixed geometry."""
    # b larger than an axis would give an empty image: outside the statement (there is no block to sum)
    out = [{"family": "operator", "b": b, "shape": [4, 5, 6], "array": k} for b in range(1, 5) for k in KINDS]
    out += [{"family": "operator", "b": b, "shape": [6, 7, 6], "array": k} for b in (5, 6) for k in KINDS]
    # shapes whose leading axes are multiples of b (only the last axis is cropped: the cropped array keeps its memory layout)
    out += [{"family": "operator", "b": b, "shape": list(sh), "array": k} for b, sh in ((2, (4, 6, 7)), (3, (6, 3, 5)), (2, (4, 4, 4))) for k in KINDS]
    # integer tomograms with realistic grey levels: block sums leave the range of the input dtype
    out += [{"family": "dtype", "b": b, "dtype": dt, "array": k, "loader": lk} for b in (2, 3, 4) for dt in ("int16", "uint16", "uint8", "int8", "float64")
            for k in ("numpy", "dask:4,5,3") for lk in ("single", "batch2")]
    combos = [(a, c) for a in KINDS for c in (True, False)]
    lks = ("single", "batch2", "batch3")
    rr = 0
    for ishape in IMG_SHAPES:
        for b in range(1, 7):
            for box in BOXES:
                if any(b * s > n for s, n in zip(box, ishape)):
                    continue
                for order in (0, 1, 3):
                    if tier == "thorough":
                        for (arr, compute), lk, scale in itertools.product(combos, lks, (1.0, 0.7)):
                            out.append({"family": "loader", "ishape": list(ishape), "b": b, "array": arr, "compute": compute,
                                        "loader": lk, "box": list(box), "order": order, "scale": scale, "seed": seed, "tier": tier})
                    else:
                        arr, compute = combos[rr % len(combos)]
                        lk = lks[(rr // len(combos)) % 3]
                        scale = (1.0, 0.7)[(rr // 7) % 2]
                        rr += 1
                        out.append({"family": "loader", "ishape": list(ishape), "b": b, "array": arr, "compute": compute,
                                    "loader": lk, "box": list(box), "order": order, "scale": scale, "seed": seed, "tier": tier})
    if tier == "quick":
        for (arr, compute), lk, b in itertools.product(combos, lks, (2, 3)):
            out.append({"family": "loader", "ishape": [7, 8, 9], "b": b, "array": arr, "compute": compute,
                        "loader": lk, "box": [2, 2, 2], "order": 1, "scale": 1.0, "seed": seed, "tier": tier})
    return out


def blocksum(a, b):
    a = np.asarray(a, dtype=np.float64)
    n = [s // b for s in a.shape]
    out = np.zeros(n)
    for dz, dy, dx in itertools.product(range(b), repeat=3):
        out += a[dz:n[0] * b:b, dy:n[1] * b:b, dx:n[2] * b:b]
    return out


def _as_array(a, kind, i=0):
    if kind.startswith("mixed"):
        numpy_here = (i == 0) == (kind == "mixed:numpy-first")
        kind = "numpy" if numpy_here else "dask:4,5,3"
    if kind == "numpy":
        return a
    if kind == "numpy:F":
        return np.asfortranarray(a)
    if kind == "numpy:strided":
        big = np.zeros(tuple(2 * n for n in a.shape), dtype=a.dtype)
        big[::2, ::2, ::2] = a
        return big[::2, ::2, ::2]
    from dask import array as da

    spec = kind.split(":")[1]
    if spec == "whole":
        return da.from_array(a, chunks=a.shape)
    return da.from_array(a, chunks=tuple(int(c) for c in spec.split(",")))


def _sites(ishape, b, box, full=False):
    """binned-grid pixel coordinates (per axis lists) for which the b*s box is inside the image"""
    per_axis = []
    for n, s in zip(ishape, box):
        nb = n // b
        vals = []
        half = (s - 1) / 2
        j = half
        while j + half <= nb - 1 + 1e-9:
            vals.append(j)
            j += 1.0
        per_axis.append(vals)
    sites = []
    if all(per_axis):
        mid = [v[len(v) // 2] for v in per_axis]
        for ax in range(3):
            vals = per_axis[ax] if full else []
            for v in vals:
                p = list(mid)
                p[ax] = v
                sites.append(tuple(p))
        nd = min(len(v) for v in per_axis)
        for i in (range(nd) if full else (0, nd - 1)):
            sites.append(tuple(v[i] for v in per_axis))
        if not full:  # quick: lowest corner, highest corner, centre, and one mixed corner
            sites.append(tuple(mid))
            sites.append((per_axis[0][0], per_axis[1][-1], per_axis[2][0]))
    return sorted(set(sites))


def run_case(case):
    import dask
    from dask import array as da

    from acryo import BatchLoader, Molecules, SubtomogramLoader
    from acryo._utils import bin_image

    dask.config.set(scheduler="synchronous")
    b = case["b"]
    viol = []
    if case["family"] == "dtype":
        dt = case["dtype"]
        rng = np.random.default_rng(5)
        lo, hi = {"int16": (500, 3000), "uint16": (20000, 60000), "uint8": (60, 250), "int8": (30, 120), "float16": (500.0, 3000.0), "float64": (0.0, 1.0)}[dt]
        ishape = (12, 13, 14)
        imgs = [(rng.random(ishape) * (hi - lo) + lo).astype(dt) for _ in range(2 if case["loader"] == "batch2" else 1)]
        sig = lambda what: f"{ID}|dtype|{what}|{'integer' if 'int' in dt else dt}-image|{case['array'].split(':')[0]}"  # noqa
        scale = 0.7
        pos_px = np.array([[(j + 0.5) * b - 0.5 for j in (1, 1, 1)]])
        if case["loader"] == "single":
            ld = SubtomogramLoader(_as_array(imgs[0], case["array"]), Molecules(pos_px * scale), order=0, scale=scale, output_shape=(1, 1, 1))
        else:
            ld = BatchLoader(order=0, scale=scale, output_shape=(1, 1, 1))
            for i, im in enumerate(imgs):
                ld.add_tomogram(_as_array(im, case["array"]), Molecules(pos_px * scale), image_id=i)
        for compute in (True, False):
            lb = ld.binning(b, compute=compute)
            images = [lb.image] if case["loader"] == "single" else [lb.images[i] for i in range(len(imgs))]
            for i, im in enumerate(images):
                ref = blocksum(imgs[i].astype(np.float64), b)
                got = np.asarray(im, dtype=np.float64)
                tol = 1e-3 * ref.max() if dt == "float16" else 1e-6 * max(1.0, ref.max())
                if got.shape != ref.shape or np.abs(got - ref).max() > tol:
                    viol.append((sig("image-values"), f"{dt} image with values {lo}..{hi}, b={b}, compute={compute}: binned image " + (f"has shape {got.shape}, the block sums have {ref.shape}" if got.shape != ref.shape else f"differs from the block sums by {np.abs(got - ref).max():.5g} (sums up to {ref.max():.5g})")))
                    break
            sub = np.asarray(lb.asnumpy(), dtype=np.float64).reshape(-1)
            want = [blocksum(im_.astype(np.float64), b)[1, 1, 1] for im_ in imgs]
            if len(sub) != len(want) or np.abs(sub - np.array(want)).max() > (1e-3 if dt == "float16" else 1e-6) * max(want):
                viol.append((sig("subtomogram"), f"{dt} image, b={b}, compute={compute}: binned sub-volume {sub.tolist()} != block sums {want}"))
        by = {}
        for s_, m_ in viol:
            by.setdefault(s_, m_)
        return {"nontrivial": True, "outcome": f"dtype|{dt}|{'viol' if viol else 'ok'}", "viol": list(by.items())}
    if case["family"] == "operator":
        shape = tuple(case["shape"])
        n = int(np.prod(shape))
        sig = lambda what: f"{ID}|bin_image|{what}|{case['array'].split(':')[0]}"  # noqa
        for j in range(n):
            e = np.zeros(n, dtype=np.float32)
            e[j] = 1.0
            e = e.reshape(shape)
            got = np.asarray(bin_image(_as_array(e, case["array"]), b))
            ref = blocksum(e, b)
            if got.shape != ref.shape or (ref.size and np.abs(got - ref).max() > 1e-6):
                viol.append((sig("operator"), f"b={b}, shape {shape}, impulse {np.unravel_index(j, shape)}: result differs from the block sum (shape {got.shape} vs {ref.shape})"))
                break
        return {"nontrivial": b >= 2, "outcome": f"operator|{'viol' if viol else 'ok'}", "viol": viol}

    ishape = tuple(case["ishape"])
    box = tuple(case["box"])
    order, scale, compute, lk = case["order"], case["scale"], case["compute"], case["loader"]
    rng = np.random.default_rng(case["seed"] * 7 + 11)
    nimg = {"single": 1, "batch2": 2, "batch3": 3}[lk]
    imgs = [rng.standard_normal(ishape).astype(np.float32) for _ in range(nimg)]
    sites = _sites(ishape, b, box, full=case.get("tier") == "thorough")
    sig = lambda what: f"{ID}|{lk}|{what}|compute={compute}|{case['array'].split(':')[0]}"  # noqa
    if not sites:
        return {"nontrivial": False, "outcome": "no-site", "viol": []}
    # binned pixel coordinate j  <->  original pixel coordinate (j + 1/2) b - 1/2
    pos_px = np.array([[(j + 0.5) * b - 0.5 for j in site] for site in sites])
    big = tuple(b * s for s in box)

    def mk(i):
        return Molecules(pos_px * scale, features={"uid": np.arange(len(sites)) + 100 * i})

    if lk == "single":
        ld = SubtomogramLoader(_as_array(imgs[0], case["array"]), mk(0), order=order, scale=scale, output_shape=box)
    else:
        ld = BatchLoader(order=order, scale=scale, output_shape=box)
        for i, im in enumerate(imgs):
            ld.add_tomogram(_as_array(im, case["array"], i), mk(i), image_id=i)
    before_pos = ld.molecules.pos.copy()
    if case.get("used", (case["b"] + len(sites)) % 2 == 0):
        ld.asnumpy()  # a loader that has already loaded sub-volumes (half of the cases): binning must start from the image, not from leftovers
    try:
        lb = ld.binning(b, compute=compute)
    except Exception as e:  # noqa
        from vf.core import acryo_frame

        return {"nontrivial": True, "outcome": "raised", "viol": [(sig(f"raised-{type(e).__name__}"), f"binning({b}, compute={compute}) raised {type(e).__name__}: {e} at {acryo_frame(e.__traceback__)}")]}
    if not np.array_equal(ld.molecules.pos, before_pos) or ld.scale != scale:
        viol.append((sig("parent-modified"), "binning changed the loader it was derived from"))
    if abs(lb.scale - b * scale) > 1e-9 * max(1, b * scale):
        viol.append((sig("scale"), f"binned scale {lb.scale}, expected {b * scale}"))
    # images
    images = [lb.image] if lk == "single" else [lb.images[i] if i in lb.images else None for i in range(nimg)]
    for i, im in enumerate(images):
        if im is None or not hasattr(im, "shape"):
            viol.append((sig("image-registry"), f"image id {i} maps to {type(im).__name__} {im!r} after binning"))
            continue
        ref = blocksum(imgs[i], b)
        if tuple(im.shape) != ref.shape:
            viol.append((sig("image-shape"), f"binned image shape {tuple(im.shape)}, expected {ref.shape}"))
            continue
        lazy_in = isinstance(_as_array(imgs[i], case["array"], i), da.Array)
        if b > 1:
            is_lazy = isinstance(im, da.Array)
            if lazy_in and is_lazy != (not compute):
                viol.append((sig("laziness"), f"compute={compute} but the binned image is {'lazy' if is_lazy else 'computed'}"))
        if np.abs(np.asarray(im) - ref).max() > 1e-4:
            viol.append((sig("image-values"), f"binned image differs from explicit block sums by {np.abs(np.asarray(im) - ref).max():.3g}"))
    if viol:
        return {"nontrivial": b >= 2, "outcome": "viol", "viol": viol}
    # molecules keep pointing at the same physical location: pos'/scale' is the binned pixel coordinate
    got_px = lb.molecules.pos / lb.scale
    want_px = np.array(list(sites) * nimg)
    if got_px.shape != want_px.shape or np.abs(got_px - want_px).max() > 1e-4:
        viol.append((sig("position"), f"binned pixel coordinates {np.round(got_px[:3], 4).tolist()}..., expected {want_px[:3].tolist()}... (b={b}, scale={scale})"))
    else:
        sub_b = np.asarray(lb.asnumpy()).astype(np.float64)
        sub_o = np.asarray(ld.asnumpy(output_shape=big)).astype(np.float64)
        for r in range(sub_b.shape[0]):
            ref = blocksum(sub_o[r], b)
            tol = 1e-5 * max(1.0, np.abs(ref).max()) * (10 if order == 3 else 1)
            if sub_b[r].shape != ref.shape or np.abs(sub_b[r] - ref).max() > tol:
                viol.append((sig(f"subvolume|order={order}"), f"molecule {r} at binned pixel {want_px[r].tolist()} (b={b}, box {box}, scale {scale}): binned sub-volume differs from the block sum of the {big} sub-volume by {np.abs(sub_b[r] - ref).max():.3g}"))
                break
    return {"nontrivial": b >= 2, "outcome": f"{lk}|b={b}|{'viol' if viol else 'ok'}", "viol": viol}
