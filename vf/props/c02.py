"""C02 -- subtomograms sample the tomogram on the molecule's local grid.

E1: pose lattice (interior / straddling each face / touching / outside) x rotation
set x output shape x spline order x scale x corner_safe x array kind.  Geometry is
read off coordinate-ramp tomograms (f=z, f=y, f=x): loading from them returns the
coordinate every output voxel was sampled at.  Values are checked on a seeded
random tomogram against interpolators written from the definition; exactness on
cube rotations at grid-coincident positions; NaN / error behaviour outside.
"""
from __future__ import annotations

import itertools
import os

import numpy as np

from vf import data

ID = "C02"
LEVEL = "exploration"
DESIGN_REF = "DESIGN.md section 3, C02"
RULE = (
    "full product rotation x output shape x order x scale x corner_safe x array kind; each case visits the whole position "
    "lattice (27 interior combinations + every single axis swept through inside / straddling / touching / outside values) on "
    "three coordinate-ramp tomograms and one random tomogram; non-trivial = rotation != identity or a non-interior position "
    "is involved (every case sweeps all of them); distinct = distinct case tuples"
)
ASSUMPTIONS = [
    "tomogram (18,19,20) (thorough: also (21,21,21)); output shapes up to 5 voxels per side; rotations CUBE24 + generic + degenerate",
    "in-bounds voxel = expected coordinate inside the sample lattice hull [0, n-1] on every axis (order 3: at least 3 px inside)",
    "order 3 is compared with a tolerance of 0.1 px on ramps (spline prefilter sees the crop edge); order 0 is don't-care within 1e-4 of a half-integer coordinate",
    "a window centred more than (half extent + order + 2) px outside the tomogram must raise; closer windows that do not overlap may raise or return finite fill; NaN is never accepted",
    "without corner_safe only the inscribed ball |k-c| <= (min(shape)-1)/2 is checked",
    "added during the seeding waves: tomograms read through SubtomogramLoader.imread, a one-tomogram BatchLoader, small-angle rotations, call histories on one loader whose molecules are edited in place between loads (depth 3, mutators)",
]

SHAPES = [(3, 3, 3), (4, 4, 4), (5, 4, 3), (3, 5, 4), (1, 1, 1)]
ORDERS = [0, 1, 3]
INTERIOR = [7.3, 9.0, 9.5]  # far enough inside an 18-20 voxel tomogram that even the order-3 corner-safe crop needs no padding


def _tomos(tier):
    return [(18, 19, 20)] if tier == "quick" else [(18, 19, 20), (21, 21, 21)]


def _rots(tier):
    names = [n for n, _ in data.named_rotations()]
    if tier == "quick":
        keep = {"cube0", "cube3", "cube5", "cube9", "cube14", "cube17", "cube20", "cube23"}
        names = [n for n in names if not n.startswith("cube") or n in keep]
        names = [n for n in names if n not in ("degen4", "degen5", "gen2")]
    return names


def _scales(tier):
    return [1.0, 1.7] if tier == "quick" else [1.0, 0.5, 1.7]


def _kinds(tier):
    return ["numpy", "dask:4"] if tier == "quick" else ["numpy", "dask:whole", "dask:4", "dask:7,5,6"]


def AXES(tier):
    return {"tomogram": _tomos(tier), "rotation": _rots(tier), "shape": SHAPES, "order": ORDERS, "scale": _scales(tier),
            "corner_safe": [False, True], "array": _kinds(tier), "positions_interior_case": 9, "positions_sweep_case": 8}


SWEEP_ROTS = ("cube0", "cube9", "gen0")


def cases(tier, seed):
    """Two families: 'interior' cases visit 9 interior positions for every rotation; 'sweep' cases (identity, one cube
    rotation, one generic rotation) drive every axis through the inside / straddling / touching / outside values -
    those go through dask's mean padding and cost ~30x more per load."""
    out = []
    for tomo in _tomos(tier):
        for rot in _rots(tier):
            for shape in SHAPES:
                for order in ORDERS:
                    for scale in _scales(tier):
                        for cs in (False, True):
                            for kind in _kinds(tier):
                                if kind != "numpy" and tier == "quick" and not (scale == 1.0 and rot in ("cube0", "gen0", "cube9")):
                                    continue
                                out.append({"tomo": list(tomo), "rot": rot, "shape": list(shape), "order": order, "scale": scale,
                                            "corner_safe": cs, "array": kind, "seed": seed, "family": "interior"})
                                if kind == "numpy" and rot in ("cube0", "gen0") and (tier == "thorough" or tuple(shape) in ((3, 3, 3), (4, 4, 4))):
                                    # the tomogram read lazily from an MRC file through SubtomogramLoader.imread (pixel size taken from the header)
                                    out.append({"tomo": list(tomo), "rot": rot, "shape": list(shape), "order": order, "scale": scale,
                                                "corner_safe": cs, "array": "file:mrc", "seed": seed, "family": "interior"})
                                if kind == "numpy" and rot in ("cube0", "gen0", "gen1", "degen6") and (tier == "thorough" or tuple(shape) in ((3, 3, 3), (4, 4, 4), (3, 5, 4))):
                                    # the same molecules held by a BatchLoader (one tomogram): it builds per-tomogram loaders with its own settings
                                    out.append({"tomo": list(tomo), "rot": rot, "shape": list(shape), "order": order, "scale": scale,
                                                "corner_safe": cs, "array": "batch", "seed": seed, "family": "interior"})
                                if rot in SWEEP_ROTS and kind == "numpy":
                                    if tier == "quick" and (scale != 1.0 or shape in ((3, 5, 4), (1, 1, 1))):
                                        continue
                                    for ax in range(3):
                                        out.append({"tomo": list(tomo), "rot": rot, "shape": list(shape), "order": order, "scale": scale,
                                                    "corner_safe": cs, "array": kind, "seed": seed, "family": f"sweep{ax}"})
    # call histories on one loader whose molecules are edited in place between loads (a refinement loop translating /
    # rotating its molecules with copy=False): every load samples at the molecules' CURRENT poses
    for kind in ("single", "batch"):
        for scale in (1.0, 0.5):
            out.append({"family": "history", "kind": kind, "scale": scale, "depth": 3})
    return out


def _run_history(case):
    from scipy.spatial.transform import Rotation

    from acryo import BatchLoader, Molecules, SubtomogramLoader
    from vf import history

    scale, kind = case["scale"], case["kind"]

    def make():
        rng = np.random.default_rng(8)
        tomo = rng.standard_normal((24, 26, 28)).astype(np.float32)
        rots = Rotation.from_matrix(np.array([data.rot_matrix(n) for n in ("cube0", "gen0", "cube9", "gen1")]))
        mole = Molecules(np.array([[10.0, 12.0, 14.0], [12.5, 11.0, 13.0], [11.0, 14.0, 12.0], [13.0, 13.0, 15.0]]) * scale, rots)
        if kind == "batch":
            ld = BatchLoader(order=1, scale=scale, output_shape=(5, 5, 5))
            ld.add_tomogram(tomo, mole, image_id=0)
            mole = ld.molecules
        else:
            ld = SubtomogramLoader(tomo, mole, order=1, scale=scale, output_shape=(5, 5, 5))
        return {"ld": ld, "mole": mole}

    ops = [("asnumpy", lambda st: np.asarray(st["ld"].asnumpy())), ("load(0)", lambda st: np.asarray(st["ld"].load(0))),
           ("load([2,1])", lambda st: np.asarray(st["ld"].load([2, 1]))), ("average", lambda st: np.asarray(st["ld"].average()))]
    v = np.array([0.2, -0.1, 0.3])
    mutators = [("translate(copy=False)", lambda st: st["mole"].translate(np.array([3.0, -2.0, 4.0]) * scale, copy=False)),
                ("translate_internal(copy=False)", lambda st: st["mole"].translate_internal(np.array([1.0, 0.5, -1.5]) * scale, copy=False)),
                ("rotate_by_rotvec(copy=False)", lambda st: st["mole"].rotate_by_rotvec(np.tile(v, (4, 1)), copy=False))]
    res = history.explore(make, ops, case["depth"], atol=1e-6, rtol=1e-6, mutators=mutators)
    viol, seen = [], set()
    for n_ in res["raises_alone"]:
        viol.append((f"{ID}|history|{kind}|raises-on-a-fresh-loader|{n_.split('(')[0]}", f"{n_} raised {res['raises_alone_msg'][n_]}"))
    for hist, why in res["failures"]:
        upd = [h for h in hist[:-1] if "copy=False" in h]
        sg = f"{ID}|history|{kind}|{hist[-1].split('(')[0]}-after-{(upd[-1] if upd else hist[-2]).split('(')[0]}"
        if sg not in seen:
            seen.add(sg)
            viol.append((sg, f"{kind} loader, scale {scale}: {hist[-1]} after {hist[:-1]} differs from the same call on a fresh loader whose molecules got the same in-place edits: {why}"))
    for hist, err in res["errors"]:
        sg = f"{ID}|history|{kind}|raised"
        if sg not in seen:
            seen.add(sg)
            viol.append((sg, f"{hist} raised {err}"))
    return {"nontrivial": True, "outcome": f"history|{kind}|{'viol' if viol else 'ok'}", "viol": viol,
            "metrics": {"history_sequences": res["sequences"], "history_calls": res["calls"]}}


def _axis_values(n):
    return [-12.0, -2.5, -0.5, 0.0, 2.3, 4.5, n - 1.0, n - 0.5, n + 1.5, n + 12.0]


def _positions(tomo, family="all"):
    """[(pos_px, is_interior)]"""
    if family == "interior":
        return [(np.array(p), True) for p in itertools.product((7.3, 9.5), repeat=3)] + [(np.array((9.0, 9.0, 9.0)), True)]
    out = [(np.array(p), True) for p in itertools.product(INTERIOR, repeat=3)] if family == "all" else []
    others = [(9.0, 9.5), (9.5, 9.0)]
    for ax in range(3):
        if family.startswith("sweep") and int(family[5:]) != ax:
            continue
        for v in _axis_values(tomo[ax]):
            if v in INTERIOR:
                continue
            for o in others[:1]:
                p = [0.0, 0.0, 0.0]
                rest = [a for a in range(3) if a != ax]
                p[ax] = v
                p[rest[0]], p[rest[1]] = o
                out.append((np.array(p), False))
    return out


def _as_array(a, kind):
    if kind == "numpy":
        return a
    from dask import array as da

    spec = kind.split(":")[1]
    if spec == "whole":
        return da.from_array(a, chunks=a.shape)
    ch = tuple(int(c) for c in spec.split(","))
    if len(ch) == 1:
        ch = ch * 3
    return da.from_array(a, chunks=ch)


def _nearest(tomo, X):
    idx = np.floor(X + 0.5).astype(int)
    return tomo[idx[..., 0], idx[..., 1], idx[..., 2]]


def _trilinear(tomo, X):
    i0 = np.floor(X).astype(int)
    f = X - i0
    out = np.zeros(X.shape[:-1])
    n = np.asarray(tomo.shape)
    for dz, dy, dx in itertools.product((0, 1), repeat=3):
        d = np.array([dz, dy, dx])
        w = np.prod(np.where(d == 1, f, 1 - f), axis=-1)
        ii = np.minimum(i0 + d, n - 1)
        out += w * tomo[ii[..., 0], ii[..., 1], ii[..., 2]]
    return out


def run_case(case):
    if case.get("family") == "history":
        return _run_history(case)
    import dask
    from scipy import ndimage as ndi
    from scipy.spatial.transform import Rotation

    from acryo import Molecules, SubtomogramLoader
    from acryo._utils import SubvolumeOutOfBoundError

    dask.config.set(scheduler="synchronous")
    tshape = tuple(case["tomo"])
    shape = tuple(case["shape"])
    order, scale, cs = case["order"], case["scale"], case["corner_safe"]
    R = data.rot_matrix(case["rot"])
    rot = Rotation.from_matrix(R)
    is_cube = case["rot"].startswith("cube")
    nvec = np.asarray(tshape, dtype=np.float64)
    ramps = [np.broadcast_to(np.arange(n, dtype=np.float32).reshape([-1 if i == ax else 1 for i in range(3)]), tshape).copy()
             for ax, n in enumerate(tshape)]
    rnd = np.random.default_rng(case["seed"] * 13 + 3).standard_normal(tshape).astype(np.float32)
    kgrid = data.box_coords(shape)  # k - (shape-1)/2
    rel = kgrid @ R.T  # R (k - c)
    ball = np.sqrt((kgrid**2).sum(-1)) <= (min(shape) - 1) / 2 + 1e-9
    scope = np.ones(shape, dtype=bool) if cs else ball
    cls_rot = "cube" if is_cube else "generic"
    sig = lambda what, where: f"{ID}|{what}|order={order}|corner_safe={cs}|{cls_rot}|{where}"  # noqa
    viol = []
    seen = set()

    def add(s, msg):
        if s not in seen:
            seen.add(s)
            viol.append((s, msg))

    tmpdir = []

    def loader_for(img, positions):
        mole = Molecules(np.array(positions) * scale, Rotation.from_matrix(np.array([R] * len(positions))))
        if case["array"] == "batch":
            from acryo import BatchLoader

            b = BatchLoader(order=order, scale=scale, output_shape=shape, corner_safe=cs)
            b.add_tomogram(img, mole, image_id=3)
            return b
        if case["array"] == "file:mrc":
            import tempfile

            import mrcfile

            if not tmpdir:
                tmpdir.append(tempfile.mkdtemp(prefix="vfc02-", dir="/dev/shm"))
            path = f"{tmpdir[0]}/t{len(os.listdir(tmpdir[0]))}.mrc"
            with mrcfile.new(path) as f:
                f.set_data(np.ascontiguousarray(img, dtype=np.float32))
                f.voxel_size = scale * 10.0
            return SubtomogramLoader.imread(path, mole, order=order, output_shape=shape, corner_safe=cs, chunks=(7, 8, 9))
        return SubtomogramLoader(_as_array(img, case["array"]), mole, order=order, scale=scale, output_shape=shape, corner_safe=cs)

    margin = {0: 0.0, 1: 0.0, 3: 3.0}[order]
    stats = {"in_bounds_voxels": 0, "raised": 0, "partial": 0}
    for p, interior in _positions(tshape, case["family"]):
        X = p + rel  # expected sampling coordinate of every output voxel
        inb = np.all((X >= margin - 1e-9) & (X <= nvec - 1 - margin + 1e-9), axis=-1)
        # (the guaranteed region only: without corner_safe the corners of a rotated non-cubic box may fall outside the crop window)
        lo = X[scope].reshape(-1, 3).min(0)
        hi = X[scope].reshape(-1, 3).max(0)
        dist_out = np.maximum(np.maximum(-hi, lo - (nvec - 1)), 0).max()  # how far the sample box lies outside (0 = overlaps)
        where = "interior" if interior else ("outside" if dist_out > 0 else "straddling")
        loaded = []
        raised = None
        for img in ramps + [rnd]:
            try:
                loaded.append(np.asarray(loader_for(img, [p]).load(0)))
            except SubvolumeOutOfBoundError as e:
                raised = e
                break
        if raised is not None:
            stats["raised"] += 1
            if dist_out == 0:
                add(sig("spurious-out-of-bound-error", where), f"position {p.tolist()} px (sample box overlaps the tomogram {tshape}) raised {raised}")
            continue
        # must raise when even a generous crop window (half extent + order + 2) cannot reach the tomogram
        half = np.full(3, np.sqrt(sum(s * s for s in shape)) / 2) if cs else np.asarray(shape) / 2
        cdist = np.maximum(-p, p - (nvec - 1))
        if np.any(cdist > half + order + 2):
            add(sig("no-error-outside", where), f"position {p.tolist()} px: no sampled point within {order + 2} px of the tomogram {tshape} but no error was raised")
        if not interior:
            stats["partial"] += 1
        arr = np.stack(loaded)
        if not np.all(np.isfinite(arr)):
            add(sig("non-finite", where), f"position {p.tolist()} px, box {shape}, scale {scale}: {int((~np.isfinite(arr)).sum())} non-finite voxels (sample box {dist_out:.2f} px outside)")
            continue
        m = inb & scope
        stats["in_bounds_voxels"] += int(m.sum())
        if m.any():
            got = np.stack(loaded[:3], -1)  # sampled coordinate per voxel
            if order == 0:
                want = np.floor(X + 0.5)
                care = np.abs((X - np.floor(X)) - 0.5) > 1e-4
                bad = m[..., None] & care & (got != want)
                tol_txt = "exact"
            else:
                tol = 1e-3 if order == 1 else 0.1
                bad = m[..., None] & (np.abs(got - X) > tol)
                tol_txt = str(tol)
            if bad.any():
                k = tuple(int(i) for i in np.argwhere(bad.any(-1))[0])
                add(sig("geometry", where), f"position {p.tolist()} px, rot {case['rot']}, box {shape}, scale {scale}: voxel {k} sampled at {got[k].tolist()} instead of {np.round(X[k], 4).tolist()} ({int(bad.any(-1).sum())} voxels, tolerance {tol_txt})")
            # values on the random tomogram
            if order == 0:
                care_v = np.all(np.abs((X - np.floor(X)) - 0.5) > 1e-4, axis=-1)
                mm = m & care_v
                if mm.any():
                    ref = _nearest(rnd, np.where(mm[..., None], X, 0.0))
                    if np.abs(loaded[3] - ref)[mm].max() > 1e-6:
                        add(sig("values", where), f"position {p.tolist()} px, rot {case['rot']}: nearest-neighbour values differ by {np.abs(loaded[3] - ref)[mm].max():.3g}")
            elif order == 1:
                ref = _trilinear(rnd, np.where(m[..., None], X, 0.0))
                if np.abs(loaded[3] - ref)[m].max() > 2e-4:
                    add(sig("values", where), f"position {p.tolist()} px, rot {case['rot']}: trilinear values differ by {np.abs(loaded[3] - ref)[m].max():.3g}")
        # exactness: cube rotation at a grid-coincident position reproduces the permuted block
        if is_cube and interior and np.allclose(X, np.round(X)) and inb.all():
            Xi = np.round(X).astype(int)
            block = rnd[Xi[..., 0], Xi[..., 1], Xi[..., 2]]
            err = np.abs(loaded[3] - block)[scope].max()
            if err > (1e-6 if order == 0 else 1e-4):  # float32 affine matrix: coordinates are exact to ~1e-6 only
                add(sig("exact-block", where), f"position {p.tolist()} px, rot {case['rot']}, box {shape}: differs from the tomogram block by {err:.3g}")
    # observers agree on a multi-molecule loader (interior positions only)
    ipos = [p for p, interior in _positions(tshape, "interior")][:6]
    ld = loader_for(rnd, ipos)
    full = np.asarray(ld.asnumpy())
    if case["family"] == "interior" and not (np.array_equal(full[2], ld.load(2)) and np.array_equal(full[1:4], ld.load(slice(1, 4))) and np.array_equal(full[[4, 0]], ld.load([4, 0]))
            and all(np.array_equal(a, b) for a, b in zip(full, ld.load_iter())) and np.array_equal(full, ld.construct_dask().compute())):
        add(sig("observers-disagree", "interior"), "load(i), load(slice), load(list), load_iter, asnumpy, construct_dask do not return the same sub-volumes")
    if tmpdir:
        import shutil

        shutil.rmtree(tmpdir[0], ignore_errors=True)
    return {"nontrivial": True, "outcome": f"order{order}|cs={cs}|{cls_rot}|{'viol' if viol else 'ok'}", "viol": viol,
            "metrics": {k: float(v) for k, v in stats.items()}}
