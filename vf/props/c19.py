"""C19 -- image pipelines compose like functions and are parameterised in physical units.

E1 over programs: every pipeline expression up to a depth bound over a small base of
providers / converters / scalars and all ten binary operators (both operand orders), unary
minus and composition, evaluated at two scales and compared with a reference interpreter
(plain nested function application and numpy operators).  Further families: associativity
of @ on all triples, curried user functions of 0..4 parameters, scale covariance of every
nm-parameterised converter / provider, rescaling providers, the Gaussian provider, mask
converters (extensive / anti-extensive, range), loader dispatch of template / mask inputs.
"""
from __future__ import annotations

import itertools
import operator
import os
import shutil
import tempfile

import numpy as np

ID = "C19"
LEVEL = "exploration"
DESIGN_REF = "DESIGN.md section 3, C19"
RULE = (
    "programs: all expressions  E ::= base | -E | E op E | E op s | s op E | C @ E  with op in {+,-,*,/,<,<=,>,>=,==,!=}, s in {2, 0.5}, bases = 2 providers + 3 converters, "
    "to depth 2 (thorough: depth 3 on a reduced operator set), each evaluated at scales 1 and 0.5; plus the families listed in the module docstring; "
    "non-trivial = the expression contains an operator; distinct = distinct expression strings"
)
ASSUMPTIONS = [
    "images of 6x6x6 voxels; reference interpreter written as plain function application",
    "comparison results are compared by truth value (the library may return bool or 0/1 floats)",
    "rescaling providers: no particular resampling convention is imposed (shape, monotonicity and value range of a ramp are checked)",
    "Gaussian provider: centre of mass within 0.51 px of (shape_px-1)/2 + shift/scale, isotropic Gaussian of the requested sigma about its own centre",
    "added during the seeding waves: from_files with differing header scales, tolerance cases, center_by_mass, user functions with defaults, parameters given as numpy arrays and pipelines used repeatedly, sign of exact zeros compared",
]

OPS = {"+": operator.add, "-": operator.sub, "*": operator.mul, "/": operator.truediv, "<": operator.lt, "<=": operator.le,
       ">": operator.gt, ">=": operator.ge, "==": operator.eq, "!=": operator.ne}
SCALARS = [2.0, 0.5]


def _imgs():
    rng = np.random.default_rng(42)
    # quantised values: comparisons between expressions hit many exact ties (<= vs <, >= vs > differ only there)
    a0 = (np.round(rng.random((6, 6, 6)) * 4) / 4 + 0.5).astype(np.float32)
    a1 = (np.round(rng.random((6, 6, 6)) * 4) / 4 + 0.25).astype(np.float32)
    return a0, a1


def _bases():
    """name -> (pipeline object, reference function, kind)"""
    from scipy import ndimage as ndi

    from acryo import pipe

    a0, a1 = _imgs()
    P1 = pipe.provider_function(lambda scale: (a0 * (1.0 + scale)).astype(np.float32))()
    P2 = pipe.ImageProvider(lambda scale: (a1 + scale).astype(np.float32))
    C1 = pipe.gaussian_filter(sigma=1.0)
    C2 = pipe.converter_function(lambda img, scale, k: (img * k + scale).astype(np.float32))(3.0)
    C3 = pipe.shift(shift=(0.5, -1.0, 0.0))
    return {
        "P1": (P1, lambda scale: a0 * (1.0 + scale), "P"),
        "P2": (P2, lambda scale: a1 + scale, "P"),
        "C1": (C1, lambda img, scale: ndi.gaussian_filter(img, 1.0 / scale, mode="reflect"), "C"),
        "C2": (C2, lambda img, scale: img * 3.0 + scale, "C"),
        "C3": (C3, lambda img, scale: ndi.shift(img, np.array((0.5, -1.0, 0.0)) / scale, order=1, prefilter=True, mode="nearest"), "C"),
    }
    # NOTE: programs are evaluated on the image a1; P2 = a1 + scale and C2 = 3*img + scale tie with (img * 3 + ...) style expressions,
    # and P1 = a0 * (1 + scale) takes quantised values that tie with a1-derived ones on many voxels.


def _exprs(depth, ops):
    """expressions as nested tuples; kind P (provider) or C (converter)"""
    level0 = [("base", n) for n in ("P1", "P2", "C1", "C2", "C3")]

    def kind(e):
        if e[0] == "base":
            return e[1][0]
        if e[0] == "neg":
            return kind(e[1])
        if e[0] == "compose":
            return kind(e[2])
        if e[0] == "bin":
            l, r = e[2], e[3]
            kl = kind(l) if isinstance(l, tuple) else "s"
            kr = kind(r) if isinstance(r, tuple) else "s"
            if "C" in (kl, kr):
                return "C"
            return "P"
        raise KeyError(e)

    allx = list(level0)
    prev = list(level0)
    for d in range(depth):
        new = []
        for e in prev:
            new.append(("neg", e))
            for s in SCALARS:
                for op in ops:
                    new.append(("bin", op, e, s))
                    new.append(("bin", op, s, e))
        pool = allx if d == 0 else level0
        for e in prev:
            for f in pool:
                for op in ops:
                    # a provider on the left with a converter on the right is not defined by the library (P op C): skip
                    if kind(e) == "P" and kind(f) == "C":
                        continue
                    new.append(("bin", op, e, f))
                    if d > 0 and not (kind(f) == "P" and kind(e) == "C"):
                        new.append(("bin", op, f, e))
        for c in level0:
            if c[1][0] != "C":
                continue
            for e in prev:
                new.append(("compose", c, e))
        allx += new
        prev = new
    # dedupe
    seen, out = set(), []
    for e in allx:
        k = repr(e)
        if k not in seen:
            seen.add(k)
            out.append(e)
    return out, kind


def _show(e):
    if not isinstance(e, tuple):
        return repr(e)
    if e[0] == "base":
        return e[1]
    if e[0] == "neg":
        return f"(-{_show(e[1])})"
    if e[0] == "compose":
        return f"({_show(e[1])} @ {_show(e[2])})"
    return f"({_show(e[2])} {e[1]} {_show(e[3])})"


def AXES(tier):
    ex, _ = _exprs(2 if tier == "quick" else 2, list(OPS))
    return {"expressions": len(ex), "operators": list(OPS), "scalars": SCALARS, "scales": [1.0, 0.5]}


def cases(tier, seed):
    out = []
    ex, _ = _exprs(2, list(OPS))
    # expressions are grouped so that a worker builds the bases once
    step = 40
    for i in range(0, len(ex), step):
        out.append({"family": "programs", "lo": i, "hi": min(i + step, len(ex)), "depth": 2, "ops": list(OPS)})
    if tier == "thorough":
        ex3, _ = _exprs(3, ["-", "/", "<", "=="])
        for i in range(0, len(ex3), 400):
            out.append({"family": "programs", "lo": i, "hi": min(i + 400, len(ex3)), "depth": 3, "ops": ["-", "/", "<", "=="]})
    out.append({"family": "associativity"})
    # parameters handed over as numpy arrays of either float type (offsets computed with numpy): the pipeline object is used
    # several times and the caller's arrays stay what they were
    for name in ("shift", "from_gaussian", "from_array", "from_atoms"):
        for dt in ("float64", "float32"):
            out.append({"family": "caller-arrays", "name": name, "dtype": dt})
    for nparam in [0, 1, 2, 3, 4, "defaults-1", "defaults-2", "defaults-3"]:
        out.append({"family": "curry", "nparam": nparam})
    for name in ("gaussian_filter", "shift", "dilation", "erosion", "closing", "opening", "gaussian_smooth", "soft_otsu", "from_gaussian", "lowpass_filter"):
        for lam in (0.5, 2.0, 3.7):
            out.append({"family": "covariance", "name": name, "lam": lam})
    for order in (1, 3):
        for off in ((0.0, 0.0, 0.0), (1.6, -0.7, 0.4), (-2.2, 1.1, -1.3)):
            out.append({"family": "centering", "order": order, "offset": list(off)})
    for src in ("from_array", "from_arrays", "from_file", "from_files"):
        for ratio in (1.0, 1.005, 2.0, 0.5, 1.5, 0.75):
            out.append({"family": "rescale", "src": src, "ratio": ratio})
        # the tolerance is relative: the same ratios at pixel sizes far from 1 nm, on either side of the tolerance, and a caller-given tolerance
        for orig in (0.25, 4.0, 1.2):
            for ratio, tol in ((1.03, None), (0.97, None), (1.008, None), (0.992, None), (1.03, 0.05), (1.008, 0.002)):
                out.append({"family": "rescale", "src": src, "ratio": ratio, "orig": orig, "tol": tol, "long": True})
    for shape_nm in ((6.0, 6.0, 6.0), (5.0, 6.0, 7.0), (4.6, 5.4, 6.0)):
        for scale in (1.0, 0.5, 0.8):
            for sigma in (1.0, (0.8, 1.0, 1.4)):
                for shift in ((0.0, 0.0, 0.0), (0.5, -0.75, 1.0)):
                    out.append({"family": "gaussian", "shape_nm": list(shape_nm), "scale": scale, "sigma": sigma if np.isscalar(sigma) else list(sigma), "shift": list(shift)})
    for name in ("dilation", "erosion", "closing", "opening", "gaussian_smooth", "soft_otsu", "threshold_otsu"):
        for radius in (0.4, 1.0, 2.0):
            for scale in (1.0, 0.5):
                out.append({"family": "mask", "name": name, "param": radius, "scale": scale})
    for scale in (1.0, 0.5, 0.8, 0.23):
        for centre in ("none", "mean", "offset", "far"):
            for wts in (False, True):
                for lam in (2.0, 0.37):
                    out.append({"family": "atoms", "scale": scale, "centre": centre, "weights": wts, "lam": lam})
    out.append({"family": "loader-dispatch"})
    return out


class Undefined(Exception):
    """the expression is ill-typed for plain numpy too (e.g. minus of a boolean image, filtering a boolean image)"""


def _eval_ref(e, bases, scale, img):
    """reference interpreter: returns a provider value (array) or, for converters, the converted image of `img`"""
    if not isinstance(e, tuple):
        return e
    if e[0] == "base":
        obj, ref, k = bases[e[1]]
        return ref(scale) if k == "P" else ref(img, scale)
    if e[0] == "neg":
        v = _eval_ref(e[1], bases, scale, img)
        if np.asarray(v).dtype == bool:
            raise Undefined
        return -v
    if e[0] == "compose":
        inner = _eval_ref(e[2], bases, scale, img)
        if np.asarray(inner).dtype == bool:
            raise Undefined
        _, ref, _ = bases[e[1][1]]
        return ref(np.asarray(inner, dtype=np.float32) if inner.dtype != np.float32 else inner, scale)
    l = _eval_ref(e[2], bases, scale, img)
    r = _eval_ref(e[3], bases, scale, img)
    return OPS[e[1]](l, r)


def _build(e, bases):
    if not isinstance(e, tuple):
        return e
    if e[0] == "base":
        return bases[e[1]][0]
    if e[0] == "neg":
        return -_build(e[1], bases)
    if e[0] == "compose":
        return _build(e[1], bases) @ _build(e[2], bases)
    return OPS[e[1]](_build(e[2], bases), _build(e[3], bases))


def _same(got, ref):
    got = np.asarray(got)
    ref = np.asarray(ref)
    if got.shape != ref.shape:
        return False, f"shape {got.shape} vs {ref.shape}"
    if ref.dtype == bool or got.dtype == bool:
        ok = np.array_equal(got.astype(np.float64) != 0, ref.astype(np.float64) != 0)
        return ok, "truth values differ"
    with np.errstate(all="ignore"):
        err = np.abs(got.astype(np.float64) - ref.astype(np.float64))
    tol = 1e-4 * max(1.0, float(np.nanmax(np.abs(ref))))
    ok = bool(np.all((err <= tol) | (np.isnan(got) & np.isnan(ref)) | ((got == ref))))
    if ok and got.dtype.kind == "f" and ref.dtype.kind == "f":
        # exact zeros carry a sign that decides what a later division or comparison gives (2 / (2 - P) where P == 2)
        z = (got == 0) & (ref == 0)
        if z.any() and not np.array_equal(np.signbit(got[z]), np.signbit(ref[z])):
            return False, f"sign of zero differs on {int((np.signbit(got[z]) != np.signbit(ref[z])).sum())} voxels"
    return ok, f"max difference {np.nanmax(err):.3g}"


def run_case(case):
    fam = case["family"]
    return {"caller-arrays": _caller_arrays, "programs": _programs, "associativity": _assoc, "curry": _curry, "covariance": _covariance, "rescale": _rescale,
            "gaussian": _gaussian, "mask": _mask, "loader-dispatch": _dispatch, "atoms": _atoms, "centering": _centering}[fam](case)


def _opclass(e):
    """coarse signature class of an expression: operator of the outermost node and operand kinds"""
    if e[0] == "bin":
        l, r = e[2], e[3]
        side = "scalar-left" if not isinstance(l, tuple) else ("scalar-right" if not isinstance(r, tuple) else "pipeline-pipeline")
        fam = "arith" if e[1] in "+-*/" else "compare"
        return f"{fam}[{e[1]}]|{side}"
    return e[0]


def _fails(e, bases, kind, scale, img):
    """None if expression e evaluates to its reference value, else (what, message)"""
    from vf.core import acryo_frame

    k = kind(e)
    try:
        with np.errstate(all="ignore"):
            _eval_ref(e, bases, scale, img)
    except Undefined:
        return None
    try:
        obj = _build(e, bases)
        got = obj(scale) if k == "P" else obj(img, scale)
    except ZeroDivisionError:
        return None
    except Exception as err:  # noqa
        return (f"raised-{type(err).__name__}", f"raised {type(err).__name__}: {str(err)[:160]} at {acryo_frame(err.__traceback__)}")
    with np.errstate(all="ignore"):
        ref = _eval_ref(e, bases, scale, img)
    ok, why = _same(got, ref)
    return None if ok else ("wrong-value", f"{why} from nested function application")


def _minimal_failing(e, bases, kind, scale, img):
    """smallest failing sub-expression of a failing expression (so one defect gets one signature)"""
    children = [c for c in (e[1:] if e[0] != "bin" else e[2:]) if isinstance(c, tuple) and c[0] in ("base", "neg", "bin", "compose")]
    for c in children:
        if c[0] != "base" and _fails(c, bases, kind, scale, img) is not None:
            return _minimal_failing(c, bases, kind, scale, img)
    return e


def _programs(case):
    from vf.core import acryo_frame

    bases = _bases()
    ex, kind = _exprs(case["depth"], case["ops"])
    a0, a1 = _imgs()
    viol = []
    seen = set()
    n = 0
    for e in ex[case["lo"]:case["hi"]]:
        for scale in (1.0, 0.5):
            n += 1
            f = _fails(e, bases, kind, scale, a1)
            if f is None:
                continue
            m = _minimal_failing(e, bases, kind, scale, a1)
            fm = _fails(m, bases, kind, scale, a1) or f
            sig = f"{ID}|programs|{_opclass(m)}|{kind(m)}|{fm[0]}"
            if sig not in seen:
                seen.add(sig)
                viol.append((sig, f"{_show(m)} at scale {scale}: {fm[1]} (smallest failing sub-expression of {_show(e)})"))
    return {"nontrivial": True, "outcome": f"programs|{'viol' if viol else 'ok'}", "viol": viol, "metrics": {"expressions_evaluated": n}}


def _assoc(case):
    bases = _bases()
    a0, a1 = _imgs()
    conv = ["C1", "C2", "C3"]
    viol = []
    for a, b, c in itertools.product(conv, repeat=3):
        A, B, C = bases[a][0], bases[b][0], bases[c][0]
        for scale in (1.0, 0.5):
            l = ((A @ B) @ C)(a1, scale)
            r = (A @ (B @ C))(a1, scale)
            ref = bases[a][1](bases[b][1](bases[c][1](a1, scale), scale), scale)
            if not (_same(l, r)[0] and _same(l, ref)[0]):
                viol.append((f"{ID}|associativity|converters", f"({a}@{b})@{c} vs {a}@({b}@{c}) at scale {scale}"))
        for p in ("P1", "P2"):
            l = ((A @ B) @ bases[p][0])(0.5)
            r = (A @ (B @ bases[p][0]))(0.5)
            ref = bases[a][1](bases[b][1](bases[p][1](0.5).astype(np.float32), 0.5), 0.5)
            if not (_same(l, r)[0] and _same(l, ref)[0]):
                viol.append((f"{ID}|associativity|with-provider", f"({a}@{b})@{p}"))
    return {"nontrivial": True, "outcome": "assoc", "viol": list(dict(viol).items())}


def _caller_arrays(case):
    from acryo import pipe

    name, dt = case["name"], np.dtype(case["dtype"])
    a0, a1 = _imgs()
    rng = np.random.default_rng(3)
    arrs = {}
    if name == "shift":
        arrs["shift"] = np.array([1.0, -0.5, 0.5], dtype=dt)
        mk = lambda A: pipe.shift(A["shift"])  # noqa
        run = lambda p, s: p(a1, s)  # noqa
    elif name == "gaussian_filter":
        arrs["sigma"] = np.array([0.8, 1.2, 0.6], dtype=dt)
        mk = lambda A: pipe.gaussian_filter(sigma=A["sigma"])  # noqa
        run = lambda p, s: p(a1, s)  # noqa
    elif name == "from_gaussian":
        arrs.update(shape=np.array([6.0, 5.0, 7.0], dtype=dt), sigma=np.array([1.0, 1.5, 0.75], dtype=dt), shift=np.array([0.5, -0.25, 1.0], dtype=dt))
        mk = lambda A: pipe.from_gaussian(A["shape"], A["sigma"], A["shift"])  # noqa
        run = lambda p, s: p(s)  # noqa
    elif name == "from_array":
        arrs["img"] = a0.astype(dt)
        mk = lambda A: pipe.from_array(A["img"], 1.0)  # noqa
        run = lambda p, s: p(s)  # noqa
    else:
        arrs.update(atoms=(rng.random((30, 3)) * 4.0).astype(dt), weights=(rng.random(30) + 0.5).astype(dt), center=np.array([2.0, 2.0, 2.0], dtype=dt))
        mk = lambda A: pipe.from_atoms(A["atoms"], A["weights"], A["center"])  # noqa
        run = lambda p, s: p(s)  # noqa
    keep = {k: v.copy() for k, v in arrs.items()}
    viol = []
    sig = lambda what: f"{ID}|caller-arrays|{name}|{what}"  # noqa
    # reference: a pipeline built from private tuple / list copies, used once per scale
    ref = {s_: np.asarray(run(mk({k: (v.tolist() if name != "from_array" and k not in ("atoms", "weights") else v.copy()) for k, v in keep.items()}), s_)) for s_ in (0.5, 1.0, 2.0)}
    P = mk(arrs)
    for rep in (1, 2, 3):
        for s_ in (0.5, 1.0, 2.0):
            got = np.asarray(run(P, s_))
            ok, why = _same(got, ref[s_])
            if not ok:
                viol.append((sig("result-changes-with-use"), f"{dt} arrays, use #{rep} at scale {s_}: differs from the same pipeline built from private copies ({why})"))
                break
        if viol:
            break
    for k, v in arrs.items():
        if not np.array_equal(v, keep[k]):
            viol.append((sig("argument-modified"), f"the caller's {k} array ({dt}) was changed: {keep[k].ravel()[:3].tolist()} -> {v.ravel()[:3].tolist()}"))
    return {"nontrivial": True, "outcome": f"caller-arrays|{'viol' if viol else 'ok'}", "viol": viol}


def _curry(case):
    from acryo import pipe

    n = case["nparam"]
    a0, a1 = _imgs()
    viol = []
    if n == 0:
        prov = pipe.provider_function(lambda: a0)()
        conv = pipe.converter_function(lambda: a0 * 2)()
        refp = lambda s: a0  # noqa
        refc = lambda im, s: a0 * 2  # noqa
    elif n == 1:
        prov = pipe.provider_function(lambda scale: a0 * scale)()
        conv = pipe.converter_function(lambda img: img + 1)()
        refp = lambda s: a0 * s  # noqa
        refc = lambda im, s: im + 1  # noqa
    elif n == 2:
        prov = pipe.provider_function(lambda scale, k: a0 * scale + k)(4.0)
        conv = pipe.converter_function(lambda img, scale: img * scale)()
        refp = lambda s: a0 * s + 4.0  # noqa
        refc = lambda im, s: im * s  # noqa
    elif n == 3:
        prov = pipe.provider_function(lambda scale, k, m=1.0: a0 * scale + k * m)(4.0, m=0.5)
        conv = pipe.converter_function(lambda img, scale, k: img * scale + k)(7.0)
        refp = lambda s: a0 * s + 2.0  # noqa
        refc = lambda im, s: im * s + 7.0  # noqa
    elif n == "defaults-1":
        # user functions whose scale (and image) parameters have default values still receive the pipeline's scale
        prov = pipe.provider_function(lambda scale=2.0: a0 * scale)()
        conv = pipe.converter_function(lambda img, scale=2.0: img * scale)()
        refp = lambda s: a0 * s  # noqa
        refc = lambda im, s: im * s  # noqa
    elif n == "defaults-2":
        prov = pipe.provider_function(lambda scale=2.0, k=3.0: a0 * scale + k)(k=4.0)
        conv = pipe.converter_function(lambda img=None, scale=2.0, k=1.0: img * scale + k)(k=7.0)
        refp = lambda s: a0 * s + 4.0  # noqa
        refc = lambda im, s: im * s + 7.0  # noqa
    elif n == "defaults-3":
        prov = pipe.provider_function(lambda scale, k=3.0: a0 * scale + k)()
        conv = pipe.converter_function(lambda img, scale, k=1.0: img * scale + k)()
        refp = lambda s: a0 * s + 3.0  # noqa
        refc = lambda im, s: im * s + 1.0  # noqa
    else:
        prov = pipe.provider_function(lambda scale, k, m, *, q=0.0: a0 * scale + k * m + q)(4.0, 0.5, q=1.5)
        conv = pipe.converter_function(lambda img, scale, k, *, q=2.0: img * scale + k - q)(7.0, q=3.0)
        refp = lambda s: a0 * s + 3.5  # noqa
        refc = lambda im, s: im * s + 4.0  # noqa
    for s in (1.0, 0.5):
        if not _same(prov(s), refp(s))[0] or not _same(prov.provide(s), refp(s))[0]:
            viol.append((f"{ID}|curry|provider|nparam={n}", f"scale {s}"))
        if not _same(conv(a1, s), refc(a1, s))[0] or not _same(conv.convert(a1, s), refc(a1, s))[0] or not _same(conv.with_scale(s)(a1), refc(a1, s))[0]:
            viol.append((f"{ID}|curry|converter|nparam={n}", f"scale {s}"))
    return {"nontrivial": True, "outcome": "curry", "viol": list(dict(viol).items())}


def _blob_mask(shape=(14, 14, 14)):
    g = np.stack(np.meshgrid(*[np.arange(n, dtype=np.float64) for n in shape], indexing="ij"), -1)
    c = (np.asarray(shape) - 1) / 2
    d = np.sqrt(((g - c) ** 2 / np.array([9.0, 6.0, 4.0])).sum(-1))
    return d <= 1.0


def _covariance(case):
    from acryo import pipe

    name, lam = case["name"], case["lam"]
    rng = np.random.default_rng(5)
    img = rng.random((12, 12, 12)).astype(np.float32)
    binary = _blob_mask((12, 12, 12))
    viol = []
    scale = 0.6
    mk = {
        "gaussian_filter": (lambda f: pipe.gaussian_filter(sigma=0.9 * f), img),
        "shift": (lambda f: pipe.shift(shift=(0.45 * f, -0.6 * f, 0.3 * f)), img),
        "dilation": (lambda f: pipe.dilation(radius=1.3 * f), binary),
        "erosion": (lambda f: pipe.dilation(radius=-1.3 * f), binary),
        "closing": (lambda f: pipe.closing(radius=1.3 * f), binary),
        "opening": (lambda f: pipe.closing(radius=-1.3 * f), binary),
        "gaussian_smooth": (lambda f: pipe.gaussian_smooth(sigma=0.8 * f), binary),
        "soft_otsu": (lambda f: pipe.soft_otsu(sigma=0.8 * f, radius=1.3 * f), img * binary + 0.1 * img),
        "lowpass_filter": (lambda f: pipe.lowpass_filter(cutoff=0.3), img),
    }
    if name == "from_gaussian":
        a = pipe.from_gaussian(shape=(6.0, 7.2, 4.8), sigma=1.2, shift=(0.3, -0.6, 0.0))(scale)
        b = pipe.from_gaussian(shape=(6.0 * lam, 7.2 * lam, 4.8 * lam), sigma=1.2 * lam, shift=(0.3 * lam, -0.6 * lam, 0.0))(scale * lam)
    else:
        f, x = mk[name]
        a = f(1.0)(x, scale)
        b = f(lam)(x, scale * lam)
    ok, why = _same(a, b)
    if not ok:
        viol.append((f"{ID}|scale-covariance|{name}", f"parameters and scale multiplied by {lam}: {why}"))
    return {"nontrivial": True, "outcome": "covariance", "viol": viol}


def _rescale(case):
    from acryo import pipe

    src, ratio = case["src"], case["ratio"]
    n = (6, 8, 40) if case.get("long") else (6, 8, 10)  # 40 voxels: a 3 % change of the pixel size changes the voxel count
    ramp = np.broadcast_to(np.arange(n[2], dtype=np.float32), n).copy()
    rng = np.random.default_rng(8)
    img = rng.random(n).astype(np.float32)
    orig = case.get("orig", 1.2)
    tolkw = {} if case.get("tol") is None else {"tol": case["tol"]}
    scale = orig / ratio
    viol = []
    tmp = None
    try:
        if src == "from_array":
            get = lambda a: pipe.from_array(a, original_scale=orig, **tolkw)(scale)  # noqa
        elif src == "from_arrays":
            get = lambda a: pipe.from_arrays([a, a * 2], original_scale=orig, **tolkw)(scale)[1] / 2  # noqa
        else:
            import mrcfile

            tmp = tempfile.mkdtemp(prefix="vfc19-", dir="/dev/shm" if os.path.isdir("/dev/shm") else None)

            def get(a):
                p = os.path.join(tmp, "t.mrc")
                # the path held another image (other shape, other voxel size) a moment ago and was read through the same
                # provider: what counts is the file as it is when the provider is called
                with mrcfile.new(p, overwrite=True) as m:
                    m.set_data(np.full((5, 7, 9), 3.0, dtype=np.float32))
                    m.voxel_size = orig * 10 * 1.7
                pipe.from_file(p)(scale)
                with mrcfile.new(p, overwrite=True) as m:
                    m.set_data(a.astype(np.float32))
                    m.voxel_size = orig * 10
                if src == "from_files":
                    # a second file with ANOTHER pixel size in its header comes first: every file is resampled from its own pixel size
                    p2 = os.path.join(tmp, "u.mrc")
                    with mrcfile.new(p2, overwrite=True) as m:
                        m.set_data((a * 2).astype(np.float32))
                        m.voxel_size = orig * 10 * 2.0
                    both = pipe.from_files([p2, p], **tolkw)(scale)
                    alone = np.asarray(pipe.from_file(p2, **tolkw)(scale))
                    if len(both) != 2 or np.asarray(both[0]).shape != alone.shape or np.abs(np.asarray(both[0]) - alone).max() > 1e-5 * max(1.0, float(np.abs(alone).max())):
                        raise AssertionError(f"from_files: first image {np.asarray(both[0]).shape} is not from_file of the first path {alone.shape}")
                    return both[1]
                return pipe.from_file(p, **tolkw)(scale)

        try:
            out = np.asarray(get(img))
        except AssertionError as e:
            return {"nontrivial": True, "outcome": "rescale", "viol": [(f"{ID}|rescale|{src}|file-list", f"ratio {ratio}: {e}")]}
        want = tuple(int(round(s * ratio)) for s in n)
        unchanged = abs(ratio - 1) < (0.01 if case.get("tol") is None else case["tol"])
        if unchanged:
            if out.shape != n or np.abs(out - img).max() > 1e-6:
                viol.append((f"{ID}|rescale|{src}|changed-within-tolerance", f"ratio {ratio}: image was resampled (shape {out.shape})"))
        else:
            if out.shape != want:
                viol.append((f"{ID}|rescale|{src}|shape", f"ratio {ratio}: shape {out.shape}, expected {want}"))
            r = np.asarray(get(ramp))
            along = r[r.shape[0] // 2, r.shape[1] // 2, :]
            if np.any(np.diff(along) <= 0):
                viol.append((f"{ID}|rescale|{src}|ramp-not-monotone", f"ratio {ratio}: {np.round(along, 2).tolist()}"))
            if np.abs(r - along[None, None, :]).max() > 1e-3 * n[2]:
                viol.append((f"{ID}|rescale|{src}|ramp-not-constant-across", f"ratio {ratio}"))
            if abs(along[0] - 0.0) > 0.51 or abs(along[-1] - (n[2] - 1)) > 0.51:
                viol.append((f"{ID}|rescale|{src}|ramp-range", f"ratio {ratio}: spans {along[0]:.2f}..{along[-1]:.2f} for 0..{n[2] - 1}"))
    finally:
        if tmp:
            shutil.rmtree(tmp, ignore_errors=True)
    return {"nontrivial": True, "outcome": "rescale", "viol": viol}


def _gaussian(case):
    from acryo import pipe

    shape_nm, scale, sigma, shift = case["shape_nm"], case["scale"], case["sigma"], case["shift"]
    g = np.asarray(pipe.from_gaussian(shape=tuple(shape_nm), sigma=sigma if np.isscalar(sigma) else tuple(sigma), shift=tuple(shift))(scale), dtype=np.float64)
    viol = []
    iso = "iso" if np.isscalar(sigma) else "aniso"
    shape_px = tuple(int(round(s / scale)) for s in shape_nm)
    if g.shape != shape_px:
        viol.append((f"{ID}|from_gaussian|shape", f"shape {g.shape}, expected {shape_px}"))
        return {"nontrivial": True, "outcome": "gaussian", "viol": viol}
    sig_px = np.asarray([sigma] * 3 if np.isscalar(sigma) else sigma, dtype=np.float64) / scale
    want_c = (np.asarray(shape_px) - 1) / 2 + np.asarray(shift) / scale
    idx = np.stack(np.meshgrid(*[np.arange(n, dtype=np.float64) for n in shape_px], indexing="ij"), -1)
    if not np.all(np.isfinite(g)) or g.sum() <= 0:
        viol.append((f"{ID}|from_gaussian|degenerate", f"sum {g.sum()}"))
        return {"nontrivial": True, "outcome": "gaussian", "viol": viol}
    # centre: location of the maximum of a fitted separable Gaussian = weighted centre of the log-profile; use the arg-max
    # refined by the analytic model instead of the centre of mass (the box truncates the tails asymmetrically when shifted)
    am = np.array(np.unravel_index(int(np.argmax(g)), g.shape), dtype=np.float64)
    if np.abs(am - want_c).max() > 0.51 + 0.5:
        viol.append((f"{ID}|from_gaussian|centre|{iso}", f"peak at voxel {am.tolist()}, expected centre {(np.round(want_c, 2)).tolist()} px (shape {shape_px}, shift {shift} nm, scale {scale}); max value {g.max():.3g}"))
        return {"nontrivial": True, "outcome": "gaussian", "viol": viol}
    # the image must be exp(-sum ((x-c)/sigma)^2 / 2) about some centre c within 0.51 px of the expected one: fit c by least squares on the log
    with np.errstate(divide="ignore"):
        lg = np.log(np.maximum(g, 1e-300))
    sel = g > 1e-4 * g.max()
    A = np.concatenate([idx[sel] / sig_px**2, np.ones((sel.sum(), 1))], axis=1)
    y = lg[sel] + 0.5 * ((idx[sel] / sig_px) ** 2).sum(-1)
    coef, *_ = np.linalg.lstsq(A, y, rcond=None)
    c_fit = coef[:3]
    model = np.exp(-0.5 * (((idx - c_fit) / sig_px) ** 2).sum(-1) + (coef[3] + 0.5 * ((c_fit / sig_px) ** 2).sum()))
    if np.abs(c_fit - want_c).max() > 0.51:
        viol.append((f"{ID}|from_gaussian|centre|{iso}", f"Gaussian centred at {np.round(c_fit, 3).tolist()} px, expected {(np.round(want_c, 3)).tolist()} px"))
    elif np.abs(model - g).max() > 1e-3 * g.max():
        viol.append((f"{ID}|from_gaussian|not-a-gaussian-of-requested-width|{iso}", f"deviates from exp(-|x-c|^2/2sigma^2) with sigma {np.round(sig_px, 3).tolist()} px by {np.abs(model - g).max() / g.max():.3g} of the peak"))
    return {"nontrivial": True, "outcome": "gaussian", "viol": viol}


ATOMS = np.array([[0.13, 0.41, -0.27], [1.37, -0.92, 0.58], [-1.71, 0.66, 1.23], [0.84, 1.49, -1.36], [-0.52, -1.88, -0.74],
                  [2.21, 0.35, 0.97], [-0.95, 1.02, 2.06]])


def _atoms(case):
    """from_atoms: a histogram of the atoms with voxel size `scale` whose centre is `center` (nm), or the atoms' mean"""
    from acryo import pipe

    scale, cname, lam = case["scale"], case["centre"], case["lam"]
    atoms = ATOMS + np.array([3.1, -4.7, 12.9])  # a cloud away from the origin (as in a PDB file)
    w = np.array([1.0, 2.0, 0.5, 1.5, 3.0, 1.0, 0.25]) if case["weights"] else None
    mean = atoms.mean(axis=0)
    centre = {"none": None, "mean": tuple(mean), "offset": tuple(mean + np.array([0.37, -0.61, 0.22])), "far": tuple(mean + np.array([-2.3, 1.9, 3.4]))}[cname]
    viol = []
    sig = lambda what: f"{ID}|from_atoms|{what}|centre={cname if cname in ('none', 'mean') else 'explicit'}"  # noqa

    def call(atoms_, centre_, scale_):
        kw = {}
        if centre_ is not None:
            kw["center"] = centre_
        if w is not None:
            kw["weights"] = w
        return np.asarray(pipe.from_atoms(atoms_, **kw)(scale_), dtype=np.float64)

    img = call(atoms, centre, scale)
    c = mean if centre is None else np.asarray(centre)
    px = (atoms - c) / scale
    rmax = np.sqrt((px ** 2).sum(1)).max()
    if img.ndim != 3 or len(set(img.shape)) != 1:
        viol.append((sig("shape"), f"shape {img.shape}"))
        return {"nontrivial": True, "outcome": "atoms", "viol": viol}
    size = img.shape[0]
    if not (2 * rmax - 1e-9 <= size <= 2 * rmax + 2):
        viol.append((sig("box-size"), f"image side {size} px for atoms within {rmax:.2f} px of the centre (scale {scale}): the box must hold the furthest atom and not more than a voxel of margin"))
    tot = float(np.sum(w)) if w is not None else float(len(atoms))
    if abs(img.sum() - tot) > 1e-6:
        viol.append((sig("atoms-lost"), f"image sums to {img.sum():.3f}, atoms weigh {tot} (scale {scale}, side {size})"))
    else:
        exp = np.zeros_like(img)
        fr = px + size / 2.0
        if np.abs(fr - np.round(fr)).min() > 1e-6:  # no atom on a voxel face
            for i, f in enumerate(np.floor(fr).astype(int)):
                if np.all((f >= 0) & (f < size)):
                    exp[tuple(f)] += 1.0 if w is None else w[i]
            if np.abs(exp - img).max() > 1e-9:
                bad = np.argwhere(np.abs(exp - img) > 1e-9)[0]
                viol.append((sig("voxel-of-atom"), f"voxel {bad.tolist()} holds {img[tuple(bad)]} instead of {exp[tuple(bad)]}: atoms are not binned at (atom - centre)/scale around the box centre (scale {scale}, centre {cname})"))
    if cname == "mean":
        ref = call(atoms, None, scale)
        if ref.shape != img.shape or np.abs(ref - img).max() > 1e-9:
            viol.append((sig("mean-centre-vs-default"), f"center=mean(atoms) gives shape {img.shape}, the default gives {ref.shape}"))
    b = call(atoms * lam, None if centre is None else tuple(np.asarray(centre) * lam), scale * lam)
    if b.shape != img.shape or np.abs(b - img).max() > 1e-9:
        viol.append((sig("scale-covariance"), f"atoms, centre and scale multiplied by {lam}: shape {img.shape} -> {b.shape}"))
    return {"nontrivial": True, "outcome": f"atoms|{cname}|{'viol' if viol else 'ok'}", "viol": viol}


def _centering(case):
    """center_by_mass: the converted image has its centre of mass at shape/2 (the library's convention), same total intensity"""
    from scipy import ndimage as ndi

    from acryo import pipe

    shape = (18, 19, 20)  # the density stays well inside: the converter fills with the nearest edge value
    off = np.asarray(case["offset"])
    g = np.stack(np.meshgrid(*[np.arange(n, dtype=np.float64) for n in shape], indexing="ij"), -1)
    c = np.asarray(shape) / 2 + off
    img = (np.exp(-((g - c) ** 2).sum(-1) / (2 * 1.2**2)) + 0.5 * np.exp(-((g - c - np.array([1.5, 0.0, -1.0])) ** 2).sum(-1) / (2 * 1.0**2))).astype(np.float32)
    out = np.asarray(pipe.center_by_mass(order=case["order"])(img, 0.7), dtype=np.float64)
    viol = []
    com = np.asarray(ndi.center_of_mass(out))
    if out.shape != shape or np.abs(com - np.asarray(shape) / 2).max() > 0.1:
        viol.append((f"{ID}|center_by_mass|centre", f"centre of mass {np.round(com, 3).tolist()} after centring (input {np.round(ndi.center_of_mass(img), 3).tolist()}), expected {(np.asarray(shape) / 2).tolist()}"))
    if abs(out.sum() - img.sum()) > 0.03 * img.sum():
        viol.append((f"{ID}|center_by_mass|mass", f"total intensity {img.sum():.4f} -> {out.sum():.4f}"))
    return {"nontrivial": bool(np.any(off != 0)), "outcome": "centering", "viol": viol}


def _mask(case):
    from acryo import pipe

    name, param, scale = case["name"], case["param"], case["scale"]
    binary = _blob_mask()
    rng = np.random.default_rng(2)
    gray = (binary * 1.0 + 0.2 * rng.random(binary.shape)).astype(np.float32)
    viol = []
    sig = lambda what: f"{ID}|mask|{name}|{what}"  # noqa
    if name == "dilation":
        out = pipe.dilation(radius=param)(binary, scale)
        if np.any(binary & ~np.asarray(out, dtype=bool)):
            viol.append((sig("not-extensive"), f"radius {param}, scale {scale}"))
    elif name == "erosion":
        out = pipe.dilation(radius=-param)(binary, scale)
        if np.any(np.asarray(out, dtype=bool) & ~binary):
            viol.append((sig("not-anti-extensive"), f"radius {-param}, scale {scale}"))
    elif name == "closing":
        out = pipe.closing(radius=param)(binary, scale)
        if np.any(binary & ~np.asarray(out, dtype=bool)):
            viol.append((sig("not-extensive"), f"radius {param}, scale {scale}"))
    elif name == "opening":
        out = pipe.closing(radius=-param)(binary, scale)
        if np.any(np.asarray(out, dtype=bool) & ~binary):
            viol.append((sig("not-anti-extensive"), f"radius {-param}, scale {scale}"))
    elif name == "gaussian_smooth":
        out = np.asarray(pipe.gaussian_smooth(sigma=param)(binary, scale))
        if np.any(out < binary.astype(np.float32) - 1e-6):
            viol.append((sig("below-input"), f"sigma {param}"))
    elif name == "soft_otsu":
        out = np.asarray(pipe.soft_otsu(sigma=param, radius=param)(gray, scale))
        hard = np.asarray(pipe.threshold_otsu()(gray, scale), dtype=bool)
        if np.any(out[hard] < 1 - 1e-6):
            viol.append((sig("not-extensive"), "soft mask is below 1 inside the Otsu mask"))
    else:
        out = np.asarray(pipe.threshold_otsu()(gray, scale))
        if out.astype(bool).all() or not out.astype(bool).any() or np.any(out.astype(bool) & (gray < 0.1)) or np.any(~out.astype(bool) & (gray > 1.0)):
            viol.append((sig("otsu-does-not-split"), "Otsu threshold does not fall between the two modes of a bimodal image"))
    o = np.asarray(out, dtype=np.float64)
    if o.shape != binary.shape or o.min() < -1e-6 or o.max() > 1 + 1e-6 or not np.all(np.isfinite(o)):
        viol.append((sig("range"), f"values in [{o.min()}, {o.max()}], shape {o.shape}"))
    return {"nontrivial": True, "outcome": "mask", "viol": viol}


def _dispatch(case):
    from acryo import Molecules, SubtomogramLoader, pipe

    a0, a1 = _imgs()
    ld = SubtomogramLoader(np.zeros((10, 10, 10), dtype=np.float32), Molecules(np.array([[5.0, 5.0, 5.0]])), scale=0.5, output_shape=(6, 6, 6))
    viol = []
    prov = pipe.provider_function(lambda scale: (a0 * scale).astype(np.float32))()
    conv = pipe.converter_function(lambda img, scale: (img > img.mean() * scale).astype(np.float32))()
    t = ld.normalize_template(prov)
    if not _same(t, a0 * 0.5)[0]:
        viol.append((f"{ID}|loader-dispatch|template-provider", "provider not evaluated at the loader's scale"))
    if ld.normalize_template(a1) is not a1:
        viol.append((f"{ID}|loader-dispatch|template-array", "array template not passed through"))
    m = ld.normalize_mask(prov)
    if not _same(m, a0 * 0.5)[0]:
        viol.append((f"{ID}|loader-dispatch|mask-provider", "provider mask not evaluated at the loader's scale"))
    mc = ld.normalize_mask(conv)
    if not callable(mc) or not _same(mc(a1), (a1 > a1.mean() * 0.5).astype(np.float32))[0]:
        viol.append((f"{ID}|loader-dispatch|mask-converter", "converter mask not bound to the loader's scale"))
    tt, mm = ld.normalize_input(prov, conv)
    if not _same(tt, a0 * 0.5)[0] or not _same(mm, ((a0 * 0.5) > (a0 * 0.5).mean() * 0.5).astype(np.float32))[0]:
        viol.append((f"{ID}|loader-dispatch|normalize_input", "converter mask not applied to the provided template"))
    if ld.normalize_mask(None) is not None:
        viol.append((f"{ID}|loader-dispatch|mask-none", ""))
    return {"nontrivial": True, "outcome": "dispatch", "viol": viol}
