"""C13 -- saved molecules reload unchanged.

E1: row count x orientation alphabet (angles at and near 0 and pi, two axes) x position
alphabet x feature block x float_precision x suffix x API path; round-trip equality at
the precision the format promises; suffix dispatch read off the file's magic bytes.
"""
from __future__ import annotations

import itertools
import os
import shutil
import tempfile

import numpy as np

ID = "C13"
LEVEL = "exploration"
DESIGN_REF = "DESIGN.md section 3, C13"
RULE = (
    "full product rows (1..4; 5,6,7,10,11,12 on a reduced position/axis set) x rotation-angle set x axis x position set x features on/off x path "
    "(dataframe, parquet, csv x float_precision {None,2,4,6,8,10,12}, to_file/from_file x suffix {.csv,.parquet,.pq,.txt,none}); "
    "non-trivial = a non-identity orientation or a fractional position; distinct = distinct case tuples"
)
ASSUMPTIONS = [
    "tables of 1..7 and 10..12 rows; orientation angles {0, 1e-8, 1e-4, 1, pi-1e-3, pi-1e-6, pi} about e_z and (1,2,-2)/3; positions up to 1e4",
    "orientation tolerance 2e-6 rad for exact formats (float32 rotation vectors), sqrt(3)*0.5*10^-p + 2e-6 for CSV with p decimals",
    "CSV features are compared by value after CSV typing (float32 comes back as float64, nulls stay nulls)",
    "added during the seeding waves: zero-row tables (three origins x with/without features x seven reader/writer pairs), row counts around 6 and 11, column orders and names, file names with several dots / upper-case suffix / Path objects, tables that were reloaded / sorted / Fortran-ordered / strided before saving, CSV precisions 10 and 12",
]

ANGLES = [0.0, 1e-8, 1e-4, 1.0, np.pi - 1e-3, np.pi - 1e-6, np.pi]
AXES_ = [(1.0, 0.0, 0.0), (1 / 3, 2 / 3, -2 / 3)]
POSSETS = {"zero": [0.0, 0.0, 0.0], "small": [1e-3, -1e-3, 0.0], "frac": [123.456, -7.125, 0.5], "large": [1e4 + 0.25, 2048.0, -3333.75]}
PATHS = ["dataframe", "parquet", "csv:None", "csv:2", "csv:4", "csv:6", "csv:8", "csv:10", "csv:12", "file:.csv", "file:.parquet", "file:.pq", "file:.txt", "file:",
         # file names with more dots than the one of the suffix, an upper-case suffix (not a Parquet suffix: text), a Path object
         "file:.v2.parquet", "file:_1.5nm.pq", "file:.parquet.csv", "file:.PQ", "file:.pq.bak", "pathobj:.parquet"]


def AXES(tier):
    return {"rows": [1, 2, 3, 4, 5, 6, 7, 10, 11, 12], "angle": ANGLES, "axis": AXES_, "positions": list(POSSETS), "features": [True, False], "path": PATHS}


def cases(tier, seed):
    out = []
    for n in (1, 2, 3, 4):
        for ai, ax in itertools.product(range(len(ANGLES)), range(len(AXES_))):
            for ps in POSSETS:
                for feats in (True, False):
                    for path in PATHS:
                        if tier == "quick" and n in (2, 4) and not (ps == "frac" and feats):
                            continue
                        out.append({"n": n, "angle": ai, "axis": ax, "pos": ps, "features": feats, "path": path})
    # row counts around the number of pose columns (6) and of all columns (6 + 5 features): a table that is square in
    # either sense is where a column/row orientation slip would hide
    for n in (5, 6, 7, 10, 11, 12):
        for ai in range(len(ANGLES)):
            for feats in (True, False):
                for path in PATHS:
                    out.append({"n": n, "angle": ai, "axis": 1, "pos": "frac", "features": feats, "path": path})
    # where the table comes from: positions held in Fortran order (every table that was itself read from a frame or a file,
    # or was filtered / sorted), or as a strided view of a wider array - saving a loaded table again is the usual workflow
    for n in (3, 5, 6, 7, 10, 11, 12):
        for ai in range(len(ANGLES)):
            for feats in (True, False):
                for origin in ("reloaded", "fortran", "strided", "sorted"):
                    for path in ("dataframe", "parquet", "csv:None", "file:.csv"):
                        out.append({"n": n, "angle": ai, "axis": 1, "pos": "frac", "features": feats, "path": path, "origin": origin})
    # tables written by other tools (or re-ordered by a join / a spreadsheet): the coordinate columns are found by name,
    # whatever their order in the table, and may carry custom names
    for order in ("canonical", "xyz", "sorted", "interleaved", "features-first", "reversed"):
        for names in ("default", "custom"):
            for via in ("dataframe", "parquet", "csv"):
                for n in (1, 5):
                    out.append({"family": "column-order", "order": order, "names": names, "via": via, "n": n})
    # tables with no molecules left (an over-strict filter, Molecules.empty, a cleared frame) keep their feature columns
    # through every reader / writer pair (wave 10 seed C13j)
    for origin in ("filtered", "cleared-frame", "subset-empty"):
        for feats in (True, False):
            for via in ("dataframe", "parquet", "to_parquet", "file:.parquet", "csv", "to_csv", "file:.csv"):
                out.append({"family": "zero-rows", "origin": origin, "features": feats, "via": via})
    return out


def _zero_rows(case):
    import polars as pl

    from acryo import Molecules

    m = _table({"n": 3, "angle": 3, "axis": 1, "pos": "frac", "features": case["features"]})
    full = m.to_dataframe()
    want_cols = full.columns
    if case["origin"] == "filtered":
        e = m.filter(pl.col("z") > 1e9)
    elif case["origin"] == "cleared-frame":
        e = Molecules.from_dataframe(full.clear())
    else:
        e = m.subset([])
    via = case["via"]
    viol = []
    sig = lambda what: f"{ID}|zero-rows|{what}|{via}|origin={case['origin']}"  # noqa
    tmp = tempfile.mkdtemp(prefix="vfc13-", dir="/dev/shm" if os.path.isdir("/dev/shm") else None)
    try:
        if e.count() != 0 or e.to_dataframe().columns != want_cols:
            viol.append((sig("source"), f"empty selection of a table with columns {want_cols} has {e.count()} rows and columns {e.to_dataframe().columns}"))
        exact = True
        if via == "dataframe":
            r = Molecules.from_dataframe(e.to_dataframe())
        elif via == "parquet":
            f = os.path.join(tmp, "r.parquet"); full.clear().write_parquet(f); r = Molecules.from_parquet(f)
        elif via == "to_parquet":
            f = os.path.join(tmp, "m.pq"); e.to_parquet(f); r = Molecules.from_parquet(f)
        elif via == "file:.parquet":
            f = os.path.join(tmp, "m.parquet"); e.to_file(f); r = Molecules.from_file(f)
        elif via == "csv":
            f = os.path.join(tmp, "r.csv"); full.clear().write_csv(f); r = Molecules.from_csv(f); exact = False
        elif via == "to_csv":
            f = os.path.join(tmp, "m.csv"); e.to_csv(f); r = Molecules.from_csv(f); exact = False
        else:
            f = os.path.join(tmp, "m.csv"); e.to_file(f); r = Molecules.from_file(f); exact = False
        got = r.to_dataframe()
        if r.count() != 0 or got.columns != want_cols:
            viol.append((sig("columns"), f"reloaded empty table has {r.count()} rows and columns {got.columns}, expected 0 rows and {want_cols}"))
        elif exact and dict(got.schema) != dict(full.schema):
            viol.append((sig("dtypes"), f"reloaded empty table has schema {dict(got.schema)}, expected {dict(full.schema)}"))
    finally:
        shutil.rmtree(tmp, ignore_errors=True)
    return {"nontrivial": case["features"], "outcome": f"zero-rows|{'viol' if viol else 'ok'}", "viol": viol}


def _column_order(case):
    import polars as pl

    from acryo import Molecules

    m = _table({"n": case["n"], "angle": 3, "axis": 1, "pos": "frac", "features": True})
    df = m.to_dataframe()
    coord = ["z", "y", "x", "zvec", "yvec", "xvec"]
    feats = [c for c in df.columns if c not in coord]
    order = {"canonical": coord + feats, "xyz": ["x", "y", "z", "xvec", "yvec", "zvec"] + feats, "sorted": sorted(df.columns),
             "interleaved": ["z", "zvec", feats[0], "y", "yvec", "x", "xvec"] + feats[1:], "features-first": feats + coord,
             "reversed": list(reversed(df.columns))}[case["order"]]
    df2 = df.select(order)
    kw = {}
    if case["names"] == "custom":
        ren = {"z": "pos_z", "y": "pos_y", "x": "pos_x", "zvec": "rz", "yvec": "ry", "xvec": "rx"}
        df2 = df2.rename(ren)
        kw = {"pos_cols": ["pos_z", "pos_y", "pos_x"], "rot_cols": ["rz", "ry", "rx"]}
    tmp = tempfile.mkdtemp(prefix="vfc13-", dir="/dev/shm" if os.path.isdir("/dev/shm") else None)
    viol = []
    sig = lambda what: f"{ID}|column-order|{what}|{case['via']}|names={case['names']}"  # noqa
    try:
        if case["via"] == "dataframe":
            m2 = Molecules.from_dataframe(df2, **kw)
        elif case["via"] == "parquet":
            f = os.path.join(tmp, "t.parquet")
            df2.write_parquet(f)
            m2 = Molecules.from_file(f, **kw)
        else:
            f = os.path.join(tmp, "t.csv")
            df2.write_csv(f)
            m2 = Molecules.from_file(f, **kw)
        tol = 1e-5 if case["via"] == "csv" else 0.0
        if m2.count() != m.count() or np.abs(m2.pos.astype(np.float64) - m.pos.astype(np.float64)).max() > tol:
            viol.append((sig("positions"), f"columns stored as {order}: positions {m2.pos.tolist()[:2]} instead of {m.pos.tolist()[:2]}"))
        elif float((m.rotator.inv() * m2.rotator).magnitude().max()) > 2e-6 + tol:
            viol.append((sig("orientations"), f"columns stored as {order}: orientations differ by {float((m.rotator.inv() * m2.rotator).magnitude().max()):.3g} rad"))
        if sorted(m2.features.columns) != sorted(feats) or any(m2.features[c].to_list() != m.features[c].to_list() for c in feats if c in m2.features.columns and m.features[c].dtype != pl.Float32 and case["via"] != "csv"):
            viol.append((sig("features"), f"columns stored as {order}: feature columns {m2.features.columns}"))
    finally:
        shutil.rmtree(tmp, ignore_errors=True)
    return {"nontrivial": case["order"] != "canonical", "outcome": f"column-order|{'viol' if viol else 'ok'}", "viol": viol}


def _table(case):
    import polars as pl
    from scipy.spatial.transform import Rotation

    from acryo import Molecules

    n = case["n"]
    base = np.array(POSSETS[case["pos"]])
    pos = np.array([base + i * np.array([1.5, -0.25, 1e-3]) for i in range(n)])
    ang = [ANGLES[(case["angle"] + i) % len(ANGLES)] for i in range(n)]
    ax = [np.array(AXES_[(case["axis"] + i) % len(AXES_)]) for i in range(n)]
    rot = Rotation.from_rotvec(np.array([a * v for a, v in zip(ang, ax)]))
    feats = None
    if case["features"]:
        feats = pl.DataFrame({
            "id": pl.Series(list(range(n)), dtype=pl.Int64),
            "score": pl.Series([0.125 * i - 0.3 for i in range(n)], dtype=pl.Float32),
            "w": pl.Series([1.23456789012345e-3 * (i + 1) for i in range(n)], dtype=pl.Float64),  # detail down to the 17th decimal
            "name": pl.Series([None if i == 1 else f"m{i}" for i in range(n)], dtype=pl.Utf8),
            "flag": pl.Series([None if i == 2 else bool(i % 2) for i in range(n)], dtype=pl.Boolean),
        })
    origin = case.get("origin", "fresh")
    if origin == "fortran":
        pos = np.asfortranarray(pos.astype(np.float32))
    elif origin == "strided":
        wide = np.zeros((n, 7), dtype=np.float32)
        wide[:, 1:6:2] = pos
        pos = wide[:, 1:6:2]
    m = Molecules(pos, rot, features=feats)
    if origin == "reloaded":
        m = Molecules.from_dataframe(m.to_dataframe())
    elif origin == "sorted":
        m = m.sort("score") if feats is not None else m.filter(pl.repeat(True, n, eager=True))
    return m


def run_case(case):
    import polars as pl
    from scipy.spatial.transform import Rotation

    from acryo import Molecules

    if case.get("family") == "column-order":
        return _column_order(case)
    if case.get("family") == "zero-rows":
        return _zero_rows(case)
    m = _table(case)
    path = case["path"]
    tmp = tempfile.mkdtemp(prefix="vfc13-", dir="/dev/shm" if os.path.isdir("/dev/shm") else None)
    viol = []
    kind = path.split(":")[0]
    sig = lambda what: f"{ID}|{path if kind != 'csv' else 'csv'}|{what}" + (f"|origin={case['origin']}" if "origin" in case else "")  # noqa
    try:
        prec = None
        exact = True
        want_parquet = False
        if kind == "dataframe":
            df = m.to_dataframe()
            cols = df.columns
            m2 = Molecules.from_dataframe(df)
        elif kind == "parquet":
            f = os.path.join(tmp, "m.parquet")
            m.to_parquet(f)
            cols = pl.read_parquet(f).columns
            m2 = Molecules.from_parquet(f)
        elif kind == "csv":
            p = path.split(":")[1]
            prec = None if p == "None" else int(p)
            exact = prec is None
            f = os.path.join(tmp, "m.csv")
            m.to_csv(f, float_precision=prec)
            cols = pl.read_csv(f).columns
            m2 = Molecules.from_csv(f)
        else:
            suffix = path.split(":")[1]
            f = os.path.join(tmp, "mole" + suffix)
            if kind == "pathobj":
                from pathlib import Path

                f = Path(f)
            m.to_file(f)
            with open(f, "rb") as fh:
                magic = fh.read(4)
            is_parquet = magic == b"PAR1"
            want_parquet = os.path.splitext(str(f))[1] in (".parquet", ".pq")  # the documented rule: the (last) suffix decides
            if is_parquet != want_parquet:
                viol.append((sig("suffix-dispatch"), f"suffix {suffix!r} wrote a {'parquet' if is_parquet else 'text'} file"))
            cols = (pl.read_parquet(f) if is_parquet else pl.read_csv(f)).columns
            m2 = Molecules.from_file(f)
            if not want_parquet:
                prec = 4  # to_file uses the to_csv default
                exact = False
        want_cols = ["z", "y", "x", "zvec", "yvec", "xvec"] + (list(m.features.columns) if case["features"] else [])
        if list(cols) != want_cols:
            viol.append((sig("columns"), f"columns {list(cols)}, expected {want_cols}"))
        if m2.count() != m.count():
            viol.append((sig("row-count"), f"{m2.count()} rows for {m.count()}"))
        else:
            tol_pos = 0.0 if exact else 0.5 * 10.0 ** (-prec) + 1e-6 * np.abs(m.pos).max() / 8 + 1e-9
            dp = float(np.abs(m2.pos.astype(np.float64) - m.pos.astype(np.float64)).max())
            if dp > tol_pos + 1e-12:
                viol.append((sig("positions"), f"positions differ by {dp:.3g} (tolerance {tol_pos:.3g}, precision {prec})"))
            ang = float((m.rotator.inv() * m2.rotator).magnitude().max())
            tol_ang = 2e-6 if exact else np.sqrt(3) * 0.5 * 10.0 ** (-prec) + 2e-6
            if ang > tol_ang:
                viol.append((sig("orientations"), f"orientations differ by {ang:.3g} rad (tolerance {tol_ang:.3g}, precision {prec}); rotation vectors {np.round(m.rotvec(), 6).tolist()} -> {np.round(m2.rotvec(), 6).tolist()}"))
            if case["features"]:
                f1, f2 = m.features, m2.features
                if list(f2.columns) != list(f1.columns):
                    viol.append((sig("feature-columns"), f"{f2.columns} vs {f1.columns}"))
                else:
                    for c in f1.columns:
                        a, b = f1[c].to_list(), f2[c].to_list()
                        same_dtype = f1[c].dtype == f2[c].dtype
                        if kind in ("dataframe", "parquet") or (kind in ("file", "pathobj") and want_parquet):
                            if a != b or not same_dtype:
                                viol.append((sig("features"), f"column {c}: {a} ({f1[c].dtype}) -> {b} ({f2[c].dtype})"))
                        else:
                            ok = len(a) == len(b) and all((x is None and y is None) or (x is not None and y is not None and (x == y if not isinstance(x, float) else abs(x - y) <= (1e-7 * max(1.0, abs(x)) if exact else 0.5 * 10.0 ** (-prec) + (1e-7 if f1[c].dtype == pl.Float32 else 1e-13)))) for x, y in zip(a, b))
                            if not ok:
                                viol.append((sig("features"), f"column {c}: {a} -> {b} (precision {prec})"))
            elif m2.features.shape[1] != 0:
                viol.append((sig("features"), f"features appeared: {m2.features.columns}"))
    finally:
        shutil.rmtree(tmp, ignore_errors=True)
    nontrivial = ANGLES[case["angle"]] != 0.0 or case["pos"] != "zero"
    return {"nontrivial": bool(nontrivial), "outcome": f"{kind}|{'viol' if viol else 'ok'}", "viol": viol}
