"""C08 -- missing-wedge masks follow the tilt geometry.

E1: every (shape, orientation, tilt range, tilt axis) of the alphabet, every
Fourier bin of every mask, every entry point, against the angular wedge
predicate of vf/oracles/wedge.py with its don't-care band.
"""
from __future__ import annotations

import itertools
import warnings

import numpy as np

from vf import data
from vf.oracles import wedge

ID = "C08"
LEVEL = "exploration"
DESIGN_REF = "DESIGN.md section 3, C08"
RULE = (
    "full product shape x orientation (24 cube rotations + generic + degenerate) x tilt range x tilt axis; "
    "each case evaluates every entry point (tilt models, dual axis, no wedge, backend helper, utility, "
    "alignment-model methods with the tilt given as tuple / model object / legacy keyword) on every bin; "
    "non-trivial = the expected mask has both kept and dropped bins; distinct = distinct case tuples"
)
ASSUMPTIONS = [
    "box sides 1..6 (quick 1..5 plus a few larger) and three realistic boxes (64^3, 49^3, (40,56,48); thorough also 96^3) on a reduced orientation/range set; orientations from the finite set CUBE24 + 4 generic + 6 degenerate",
    "bins within 1e-5 rad of a limit plane, and Nyquist bins whose two sign readings disagree, are don't-care",
    "k -> -k symmetry is demanded only on bins without a Nyquist component (DESIGN.md R2)",
    "alignment-model entry points exercised through ZNCCAlignment (thorough: also PCC, NCC, FSC)",
    "added during the seeding waves: boxes 64^3, 49^3, (40,56,48), (64,160,128), long boxes (65,12,10) ... (131,5,4); unions of 1-4 members, nested, with a no-wedge member; a quaternion buffer re-used by the caller; apply_mask and tilt_range",
]

RANGES = [(-60.0, 60.0), (-40.0, 55.0), (-50.0, 30.0), (0.0, 45.0), (-90.0, 90.0), (-90.0, 10.0), (-0.5, 0.5)]


def _shapes(tier):
    if tier == "quick":
        base = list(itertools.product(range(1, 6), repeat=3))
        extra = [(6, 6, 6), (4, 6, 5), (6, 5, 4), (8, 8, 8), (7, 7, 7)]
    else:
        base = list(itertools.product(range(1, 7), repeat=3))
        extra = [(8, 8, 8), (7, 7, 7), (9, 8, 7), (8, 10, 12), (11, 9, 10)]
    base.sort(key=lambda s: (s[0] * s[1] * s[2], s))
    return base + extra


def _rots(tier):
    names = [n for n, _ in data.named_rotations()]
    if tier == "quick":
        keep = {"cube0", "cube1", "cube5", "cube9", "cube14", "cube20", "cube23"}
        names = [n for n in names if not n.startswith("cube") or n in keep]
    return names


def AXES(tier):
    return {"shape": _shapes(tier), "rotation": _rots(tier), "tilt_range": RANGES, "axis": ["y", "x"]}


def cases(tier, seed):
    out = []
    rots = _rots(tier)
    for shape in _shapes(tier):
        for ri, rng in enumerate(RANGES):
            for axis in ("y", "x"):
                for rot in rots:
                    out.append({"shape": list(shape), "rot": rot, "range": list(rng), "axis": axis,
                                "range2": list(RANGES[(ri + 1) % len(RANGES)]), "tier": tier})
    # boxes of the size used in practice (an absolute tolerance or an index-unit slip only shows when indices are large)
    for shape in ((64, 64, 64), (49, 49, 49), (40, 56, 48)) + (((96, 96, 96),) if tier == "thorough" else ()):
        for ri in (0, 1, 3):
            for axis in ("y", "x"):
                for rot in ("cube0", "gen0", "cube5"):
                    out.append({"shape": list(shape), "rot": rot, "range": list(RANGES[ri]), "axis": axis,
                                "range2": list(RANGES[(ri + 1) % len(RANGES)]), "tier": tier})
    # long boxes (one side of 65..131 voxels, the others small): sides that are not multiples of any block / slab / tile size
    for shape in ((65, 12, 10), (9, 71, 9), (8, 8, 100), (97, 6, 7), (131, 5, 4)) + (((129, 9, 10), (10, 9, 127)) if tier == "thorough" else ()):
        for ri in (0, 1):
            for axis in ("y", "x"):
                for rot in ("cube0", "gen0"):
                    out.append({"shape": list(shape), "rot": rot, "range": list(RANGES[ri]), "axis": axis,
                                "range2": list(RANGES[(ri + 1) % len(RANGES)]), "tier": tier})
    # more than 2**20 voxels and not cubic (a long filament box): beyond any "small grid" fast path
    for rot, ri, axis in (("cube0", 0, "y"), ("gen0", 1, "x")) + ((("gen1", 0, "x"), ("cube5", 3, "y")) if tier == "thorough" else ()):
        out.append({"shape": [64, 160, 128], "rot": rot, "range": list(RANGES[ri]), "axis": axis, "range2": list(RANGES[(ri + 1) % len(RANGES)]), "tier": tier})
    return out


def _shape_class(shape):
    if len(set(shape)) > 1:
        return "noncubic"
    return "cubic-odd" if shape[0] % 2 else "cubic-even"


_MODEL_CACHE = {}


def _models(shape, rng, axis, tier):
    key = (shape, rng, axis, tier)
    if key in _MODEL_CACHE:
        return _MODEL_CACHE[key]
    if len(_MODEL_CACHE) > 4:
        _MODEL_CACHE.clear()
    from acryo import alignment as al
    from acryo.tilt import single_axis

    classes = [("ZNCC", al.ZNCCAlignment)]
    if tier == "thorough":
        classes += [("PCC", al.PCCAlignment), ("NCC", al.NCCAlignment), ("FSC", al.FSCAlignment)]
    tmpl = np.ones(shape, dtype=np.float32)
    out = []
    for cname, cls in classes:
        out.append((f"model[{cname}](tilt=model-object)", cls(tmpl, tilt=single_axis(rng, axis))))
        if axis == "y":
            out.append((f"model[{cname}](tilt=tuple)", cls(tmpl, tilt=rng)))
            with warnings.catch_warnings():
                warnings.simplefilter("ignore")
                out.append((f"model[{cname}](tilt_range=legacy)", cls(tmpl, tilt_range=rng)))
    _MODEL_CACHE[key] = out
    return out


def run_case(case):
    from scipy.spatial.transform import Rotation

    from acryo import _utils
    from acryo.backend import Backend
    from acryo.tilt import dual_axis, no_wedge, single_axis

    shape = tuple(case["shape"])
    rng = tuple(case["range"])
    rng2 = tuple(case["range2"])
    axis = case["axis"]
    rotmat = data.rot_matrix(case["rot"])
    rot = Rotation.from_matrix(rotmat)
    sc = _shape_class(shape)
    viol = []

    keep, drop, nyq_free = wedge.expected(shape, rotmat, rng, axis)
    neg = wedge.negate_index(shape)

    def judge(entry, mask, keep=keep, drop=drop, what="geometry"):
        m = np.asarray(mask)
        if m.shape != shape:
            if m.shape == ():
                m = np.broadcast_to(m, shape)
            else:
                viol.append((f"{ID}|{entry}|shape|{sc}", f"mask shape {m.shape} for box {shape}"))
                return None
        m = m != 0
        bad = (keep & ~m) | (drop & m)
        if bad.any():
            k = tuple(int(i) for i in np.argwhere(bad)[0])
            viol.append(
                (
                    f"{ID}|{entry}|{what}|{sc}",
                    f"{int(bad.sum())} of {m.size} bins wrong for box {shape}, rot {case['rot']}, range {rng}, axis {axis}; "
                    f"first bin {k}: mask={bool(m[k])}, expected {'kept' if keep[k] else 'dropped'}",
                )
            )
        return m

    # 1. tilt model
    m = judge(f"single_axis[{axis}].create_mask", single_axis(rng, axis).create_mask(rot, shape))
    if m is not None:
        if not m[(0, 0, 0)]:
            viol.append((f"{ID}|single_axis[{axis}].create_mask|zero-frequency|{sc}", "zero frequency dropped"))
        asym = (m != m[neg]) & nyq_free
        if asym.any():
            k = tuple(int(i) for i in np.argwhere(asym)[0])
            viol.append(
                (
                    f"{ID}|single_axis[{axis}].create_mask|symmetry|{sc}",
                    f"mask[k] != mask[-k] on {int(asym.sum())} Nyquist-free bins of box {shape} (rot {case['rot']}, range {rng}); first k={k}",
                )
            )
    # 1b. apply_mask (mask times a given spectrum) and the model's own record of its range
    judge(f"single_axis[{axis}].apply_mask", single_axis(rng, axis).apply_mask(rot, np.full(shape, 2.0, dtype=np.float32)))
    if tuple(float(v) for v in single_axis(rng, axis).tilt_range) != tuple(float(v) for v in rng):
        viol.append((f"{ID}|single_axis[{axis}].tilt_range|value|{sc}", f"tilt_range {single_axis(rng, axis).tilt_range} for {rng}"))
    # 2. helpers with a y axis only
    if axis == "y":
        judge("Backend.missing_wedge_mask", Backend().missing_wedge_mask(rot, rng, shape))
        judge("_utils.missing_wedge_mask", _utils.missing_wedge_mask(rot, rng, shape))
        # 3. dual axis = union of the two single-axis masks
        k2, d2, _ = wedge.expected(shape, rotmat, rng2, "x")
        dm = dual_axis(rng, rng2).create_mask(rot, shape)
        judge("dual_axis.create_mask", dm, keep=keep | k2, drop=drop & d2, what="union")
        judge("dual_axis.apply_mask", dual_axis(rng, rng2).apply_mask(rot, np.full(shape, 0.5, dtype=np.float32)), keep=keep | k2, drop=drop & d2, what="union")
        sy = np.asarray(single_axis(rng, "y").create_mask(rot, shape)) != 0
        sx = np.asarray(single_axis(rng2, "x").create_mask(rot, shape)) != 0
        if not np.array_equal(np.asarray(dm) != 0, sy | sx):
            viol.append((f"{ID}|dual_axis.create_mask|not-union-of-singles|{sc}", f"box {shape}"))
        # 3b. unions built directly: one to four members, nested, with a no-wedge member
        from acryo.tilt import UnionAxes

        rng3 = (-rng2[1] / 2, rng2[0] / -3)
        s3 = np.asarray(single_axis(rng3, "y").create_mask(rot, shape)) != 0
        y1, x2, y3 = single_axis(rng, "y"), single_axis(rng2, "x"), single_axis(rng3, "y")
        for uname, members, want in (("1", [x2], sx), ("3", [y1, x2, y3], sy | sx | s3), ("3'", [y3, y1, x2], sy | sx | s3), ("4", [y1, y3, x2, y3], sy | sx | s3),
                                     ("nested", [UnionAxes([y1, x2]), y3], sy | sx | s3), ("with-no-wedge", [y1, no_wedge(), x2], np.ones(shape, dtype=bool))):
            try:
                um = np.asarray(UnionAxes(members).create_mask(rot, shape))
            except Exception as e:  # noqa
                viol.append((f"{ID}|UnionAxes[{uname}].create_mask|raised-{type(e).__name__}|{sc}", f"box {shape}: {e}"))
                continue
            if um.shape != shape or not np.array_equal(um != 0, want):
                viol.append((f"{ID}|UnionAxes[{uname}].create_mask|not-union-of-members|{sc}", f"box {shape}, rot {case['rot']}: {int(((um != 0) != want).sum()) if um.shape == shape else um.shape} bins differ from the OR of the members' masks"))
            for w_, m_ in ((y1, sy), (x2, sx), (y3, s3)):
                if not np.array_equal(np.asarray(w_.create_mask(rot, shape)) != 0, m_):
                    viol.append((f"{ID}|UnionAxes[{uname}].create_mask|member-mask-changed|{sc}", f"box {shape}: a member's own mask differs after the union was evaluated"))
        # 4. no wedge
        nm = np.asarray(no_wedge().create_mask(rot, shape))
        if nm.shape != shape or not (nm == 1).all():
            viol.append((f"{ID}|no_wedge.create_mask|not-all-ones|{sc}", f"box {shape}"))
    # 5. alignment-model entry points
    quat = rot.as_quat()
    for name, model in _models(shape, rng, axis, case["tier"]):
        judge(name + ".get_missing_wedge_mask", model.get_missing_wedge_mask(quat))
        # a quaternion buffer that the caller overwrites in place between two molecules
        qbuf = np.array([0.5, -0.5, 0.5, 0.5])
        model.get_missing_wedge_mask(qbuf)
        qbuf[:] = quat
        judge(name + ".get_missing_wedge_mask[reused buffer]", model.get_missing_wedge_mask(qbuf))
        ones = np.ones(shape, dtype=np.complex64)
        judge(name + ".mask_missing_wedge", np.abs(model.mask_missing_wedge(ones, quat)))

    nontrivial = bool(keep.any() and drop.any())
    return {
        "nontrivial": nontrivial,
        "outcome": f"{sc}|{'mixed' if nontrivial else 'flat'}|{'viol' if viol else 'ok'}",
        "viol": viol,
        "metrics": {"dont_care_fraction": float((~keep & ~drop).mean()), "kept_fraction": float(keep.mean())},
    }
