"""C17 -- Fourier shell correlation is the normalised cross-spectrum per shell.

E1: image shapes x shell widths x pair constructions against explicit per-shell loops;
metamorphic relations (symmetry, scale invariance, self-correlation, range); loader-level
FSC (single / batch / group) x seeds x n_set x mask kinds against the FSC of the
half-maps the loader itself produces, after the mask that was asked for.
"""
from __future__ import annotations

import numpy as np

from vf import data

ID = "C17"
LEVEL = "exploration"
DESIGN_REF = "DESIGN.md section 3, C17"
RULE = (
    "full product shape x dfreq x pair construction (function level) and loader kind x seed (0..4) x n_set (1..3) x mask kind (loader level); "
    "non-trivial = the two inputs differ or a mask is given; distinct = distinct case tuples"
)
ASSUMPTIONS = [
    "shapes 4^3..7^3, (5,6,7), (8,6,4), 13^3, (9,11,13), (6,17,10); shell widths 1/min, 1.5/min, 0.05, 0.2, 0.5",
    "a shell is {bins: floor(|f| / dfreq) = i} with |f| from fftfreq; NaN is accepted only on shells where either image has no power",
    "loader-level oracle uses the half-maps returned by the loader itself (their disjointness is C09)",
    "added during the seeding waves: shapes 13^3, (9,11,13), (6,17,10); zero_norm=False; fsc_with_average; operands of different / integer dtypes; magnitudes (counts on a pedestal, 3e8, 1e-9)",
]

# sides with every small prime factor (13 and 17 are not "FFT-friendly" lengths: a padded or resampled transform shows there)
SHAPES = [(4, 4, 4), (5, 5, 5), (6, 6, 6), (7, 7, 7), (5, 6, 7), (8, 6, 4), (13, 13, 13), (9, 11, 13), (6, 17, 10)]
PAIRS = ["same", "ab", "ba", "a3b", "2ab", "neg", "bandlimited", "emptyshell", "int16-float32", "float32-int16", "bool-float64", "uint8-uint8", "float64-float32",  # the last five: inputs of different / non-float dtypes
         "counts+offset", "huge", "tiny"]  # magnitudes: detector counts on a pedestal of 2000, values of 3e8, values of 1e-9 (float32 inputs)


def _dfreqs(shape):
    m = min(shape)
    return [1.0 / m, 1.5 / m, 0.05, 0.2, 0.5]


def AXES(tier):
    return {"shape": SHAPES, "dfreq": 5, "pair": PAIRS, "loader": ["single", "batch", "group"], "seed": list(range(5)), "n_set": [1, 2, 3],
            "mask": ["none", "array", "provider", "converter"]}


def cases(tier, seed):
    out = []
    for shape in SHAPES:
        for di in range(5):
            for pair in PAIRS:
                out.append({"family": "function", "shape": list(shape), "dfreq_i": di, "pair": pair, "seed": seed})
    for lk in ("single", "batch", "group"):
        for s in range(5):
            for n_set in (1, 2, 3):
                for mask in ("none", "array", "provider", "converter"):
                    if lk == "group" and mask == "converter":
                        continue  # LoaderGroup.fsc documents array / provider masks only
                    out.append({"family": "loader", "loader": lk, "seed": s, "n_set": n_set, "mask": mask})
    return out


def ref_fsc(a, b, dfreq):
    """per-shell sums written from the statement; returns dict shell -> value | None (undefined) | 'ambiguous'.
    A bin whose |f|/dfreq is within 1e-9 of an integer without being exactly that integer in float64 could fall in
    either shell depending on rounding: both shells are then don't-care."""
    fa = np.fft.fftn(a.astype(np.float64))
    fb = np.fft.fftn(b.astype(np.float64))
    fz, fy, fx = np.meshgrid(*[np.fft.fftfreq(n) for n in a.shape], indexing="ij")
    q = np.sqrt(fz**2 + fy**2 + fx**2) / dfreq
    lab = np.floor(q).astype(int)
    near = (np.abs(q - np.round(q)) < 1e-9) & (q != np.round(q))
    amb_shells = set()
    for qq in q[near]:
        amb_shells.add(int(np.round(qq)))
        amb_shells.add(int(np.round(qq)) - 1)
    ta, tb = (np.abs(fa) ** 2).sum(), (np.abs(fb) ** 2).sum()
    out = {}
    for k in range(int(lab.max()) + 1):
        sel = lab == k
        if k in amb_shells:
            out[k] = "ambiguous"
            continue
        if not sel.any():
            out[k] = None
            continue
        c = float((fa[sel] * np.conj(fb[sel])).real.sum())
        pa = float((np.abs(fa[sel]) ** 2).sum())
        pb = float((np.abs(fb[sel]) ** 2).sum())
        if pa <= 1e-8 * ta or pb <= 1e-8 * tb:  # only float32 rounding noise in this shell
            out[k] = None
        else:
            out[k] = c / np.sqrt(pa * pb)
    return out


def _images(pair, shape, seed):
    rng = np.random.default_rng(seed * 17 + 1)
    a = rng.standard_normal(shape).astype(np.float32)
    b = (0.5 * a + rng.standard_normal(shape)).astype(np.float32)
    if pair == "same":
        return a, a.copy()
    if pair == "ab":
        return a, b
    if pair == "ba":
        return b, a
    if pair == "a3b":
        return a, (3 * b).astype(np.float32)
    if pair == "2ab":
        return (2 * a).astype(np.float32), b
    if pair == "neg":
        return a, (-a).astype(np.float32)
    if pair in ("int16-float32", "float32-int16", "bool-float64", "uint8-uint8", "float64-float32"):
        ai = np.round(a * 700).astype(np.int16)
        if pair == "int16-float32":
            return ai, (0.01 * b).astype(np.float32)
        if pair == "float32-int16":
            return (0.01 * b).astype(np.float32), ai
        if pair == "bool-float64":
            return a > 0.3, b.astype(np.float64)
        if pair == "uint8-uint8":
            return np.clip(np.round(a * 40 + 120), 0, 255).astype(np.uint8), np.clip(np.round(b * 40 + 120), 0, 255).astype(np.uint8)
        return a.astype(np.float64), b
    if pair == "counts+offset":
        # (a pedestal of 20000 makes the float32 FFT itself noisy at the 4e-4 level in the outer shells: 2000 keeps a 40:1 ratio
        # of mean to contrast and stays a factor five inside the tolerance over all seeds)
        return (a * 50 + 2000).astype(np.float32), (b * 50 + 2000).astype(np.float32)
    if pair == "huge":
        return (a * 3e8).astype(np.float32), (b * 3e8).astype(np.float32)
    if pair == "tiny":
        return (a * 1e-9).astype(np.float32), (b * 2e-9).astype(np.float32)
    if pair == "bandlimited":
        f = np.fft.fftn(a)
        fr = np.meshgrid(*[np.fft.fftfreq(n) for n in shape], indexing="ij")
        r = np.sqrt(sum(x**2 for x in fr))
        f[r > 0.3] = 0
        al = np.fft.ifftn(f).real.astype(np.float32)
        return al, b
    if pair == "emptyshell":
        f = np.fft.fftn(a)
        fr = np.meshgrid(*[np.fft.fftfreq(n) for n in shape], indexing="ij")
        r = np.sqrt(sum(x**2 for x in fr))
        f[(r > 0.18) & (r <= 0.36)] = 0
        al = np.fft.ifftn(f).real.astype(np.float32)
        return al, al.copy()
    raise KeyError(pair)


def _compare(freq, vals, a, b, dfreq, what, viol, sig):
    ref = ref_fsc(a, b, dfreq)
    freq = np.asarray(freq, dtype=np.float64)
    vals = np.asarray(vals, dtype=np.float64)
    if len(freq) != len(vals):
        viol.append((sig("length"), f"{len(freq)} frequencies, {len(vals)} values"))
        return
    for i, (fq, v) in enumerate(zip(freq, vals)):
        if abs(fq - (i + 0.5) * dfreq) > 1e-6:
            viol.append((sig("frequency-axis"), f"{what}: freq[{i}] = {fq}, expected {(i + 0.5) * dfreq}"))
            return
        r = ref.get(i, None)
        if r == "ambiguous":
            continue
        if r is None:
            continue  # undefined shell (no bins or no power): NaN or anything else is accepted
        if not np.isfinite(v):
            viol.append((sig("nan-on-populated-shell"), f"{what}: shell {i} (freq {fq:.3f}) is {v} but the reference is {r:.4f}"))
            return
        if abs(v - r) > 2e-4:
            viol.append((sig("shell-value"), f"{what}: shell {i} (freq {fq:.3f}, dfreq {dfreq:.4f}, shape {a.shape}) = {v:.5f}, per-shell cross-spectrum gives {r:.5f}"))
            return
        if abs(v) > 1 + 1e-5:
            viol.append((sig("range"), f"{what}: shell {i} = {v}"))
            return
    # shells the reference populates must be present, except the outermost label (documented: labels below the maximum)
    top = max(k for k, v in ref.items())
    missing = [k for k, v in ref.items() if v not in (None, "ambiguous") and k >= len(vals) and k < top]
    if missing:
        viol.append((sig("missing-shell"), f"{what}: populated shells {missing} are not reported ({len(vals)} values)"))


def run_case(case):
    if case["family"] == "loader":
        return _run_loader(case)
    from acryo._utils import fourier_shell_correlation

    shape = tuple(case["shape"])
    dfreq = _dfreqs(shape)[case["dfreq_i"]]
    pair = case["pair"]
    a, b = _images(pair, shape, case["seed"])
    viol = []
    sig = lambda what: f"{ID}|function|{what}"  # noqa
    freq, vals = fourier_shell_correlation(a, b, dfreq=dfreq)
    _compare(freq, vals, a, b, dfreq, f"pair {pair}", viol, sig)
    vals = np.asarray(vals, dtype=np.float64)
    if not viol:
        ref0 = ref_fsc(a, b, dfreq)
        defined = np.array([ref0.get(i) not in (None, "ambiguous") for i in range(len(vals))], dtype=bool)
        _, v2 = fourier_shell_correlation(b, a, dfreq=dfreq)
        if not np.allclose(vals[defined], np.asarray(v2, dtype=np.float64)[defined], atol=2e-5, equal_nan=True):
            viol.append((sig("symmetry"), f"FSC(a,b) != FSC(b,a) for pair {pair}, shape {shape}"))
        # powers of two: the rescaled float32 images are exactly the rescaled images (no re-quantisation of the inputs)
        _, v3 = fourier_shell_correlation((4.0 * a).astype(np.float32), (0.5 * b).astype(np.float32), dfreq=dfreq)
        if not np.allclose(vals[defined], np.asarray(v3, dtype=np.float64)[defined], atol=5e-5, equal_nan=True):
            viol.append((sig("scale-invariance"), f"pair {pair}, shape {shape}"))
        if pair in ("same", "emptyshell"):
            ref = ref_fsc(a, b, dfreq)
            for i, v in enumerate(vals):
                if ref.get(i) not in (None, "ambiguous") and abs(v - 1.0) > 2e-4:
                    viol.append((sig("self-correlation"), f"FSC(a,a) shell {i} = {v}"))
                    break
    return {"nontrivial": pair != "same", "outcome": f"function|{pair}|{'viol' if viol else 'ok'}", "viol": viol}


def _run_loader(case):
    import dask
    import polars as pl  # noqa

    from acryo import BatchLoader, Molecules, SubtomogramLoader, pipe

    dask.config.set(scheduler="synchronous")
    lk, seed, n_set, mk = case["loader"], case["seed"], case["n_set"], case["mask"]
    rng = np.random.default_rng(1234)
    box = (8, 8, 8)
    N = 9
    scale = 0.5
    particle = data.particle_box(box, sigma_scale=0.8)

    def tomo():
        T = (0.8 * rng.standard_normal((14, 14, 12 * N)).astype(np.float32))
        pos = []
        for i in range(N):
            c = np.array([6.5, 6.5, 5.5 + 12 * i])
            sl = tuple(slice(int(ci - 3.5), int(ci - 3.5) + 8) for ci in c)
            T[sl] += particle
            pos.append(c)
        return T, np.array(pos)

    T1, p1 = tomo()
    mole = Molecules(p1 * scale, features={"g": np.arange(N) % 2, "uid": np.arange(N)})
    if lk == "batch":
        T2, p2 = tomo()
        ld = BatchLoader(order=1, scale=scale, output_shape=box)
        ld.add_tomogram(T1, mole.subset(slice(0, 5)), image_id=0)
        ld.add_tomogram(T2, Molecules(p2[:4] * scale, features={"g": np.arange(4) % 2, "uid": np.arange(4) + 100}), image_id=1)
    else:
        ld = SubtomogramLoader(T1, mole, order=1, scale=scale, output_shape=box)
    cc = data.box_coords(box)
    r = np.sqrt((cc**2).sum(-1))
    mask_arr = (1.0 / (1.0 + np.exp((r - 2.8) / 0.5))).astype(np.float32)
    if mk == "none":
        mask, mref = None, np.ones(box, dtype=np.float32)
    elif mk == "array":
        mask, mref = mask_arr, mask_arr
    elif mk == "provider":
        mask = pipe.from_array(mask_arr, original_scale=scale)
        mref = np.asarray(mask(scale))
    else:
        mask = pipe.soft_otsu(sigma=1.0 * scale, radius=1.0 * scale)
        mref = None
    viol = []
    sig = lambda what: f"{ID}|loader.{lk}|{what}|mask={mk}"  # noqa
    dfreq = 0.125
    if lk == "group":
        G = ld.groupby("g")
        res = G.fsc(mask=mask, seed=seed, n_set=n_set, dfreq=dfreq)
        res2 = ld.groupby("g").fsc(mask=mask, seed=seed, n_set=n_set, dfreq=dfreq)
        halves = ld.groupby("g").average_split(n_set=n_set, seed=seed, squeeze=False)
        if set(res.keys()) != set(halves.keys()):
            viol.append((sig("keys"), f"{list(res.keys())} vs {list(halves.keys())}"))
        for k in res:
            df = res[k]
            if not df.equals(res2[k]):
                viol.append((sig("not-reproducible"), f"group {k}: two calls with seed {seed} differ"))
            for s_ in range(n_set):
                h0, h1 = np.asarray(halves[k][s_, 0]), np.asarray(halves[k][s_, 1])
                _compare(df["freq"].to_numpy(), df[f"FSC-{s_}"].to_numpy(), h0 * mref, h1 * mref, dfreq, f"group {k} set {s_}", viol, sig)
    else:
        # the un-normalised variant (zero_norm=False: no subtraction of the global mean) must honour the mask in the same way
        outz = ld.fsc_with_halfmaps(mask=mask, seed=seed, n_set=n_set, dfreq=dfreq, squeeze=False, zero_norm=False)
        mz = np.asarray(outz.mask) if mk != "none" else np.ones(box, dtype=np.float32)
        if mk != "none" and np.shape(mz) != box:
            viol.append((sig("mask-dropped-without-zero_norm"), f"fsc_with_halfmaps(zero_norm=False) used the mask {outz.mask!r} of shape {np.shape(mz)} instead of the requested {mk} mask"))
        else:
            if mref is not None and np.abs(mz - mref).max() > 1e-6:
                viol.append((sig("mask-not-the-requested-one"), f"zero_norm=False: mask differs from the requested one by {np.abs(mz - mref).max():.3g}"))
            for s_ in range(n_set):
                h0, h1 = np.asarray(outz.halfmaps[0][s_]), np.asarray(outz.halfmaps[1][s_])
                _compare(outz.fsc["freq"].to_numpy(), outz.fsc[f"FSC-{s_}"].to_numpy(), h0 * (mref if mref is not None else mz), h1 * (mref if mref is not None else mz), dfreq, f"zero_norm=False set {s_}", viol, sig)
        outa = ld.fsc_with_average(mask=mask, seed=seed, n_set=n_set, dfreq=dfreq)
        out = ld.fsc_with_halfmaps(mask=mask, seed=seed, n_set=n_set, dfreq=dfreq, squeeze=False)
        out2 = ld.fsc_with_halfmaps(mask=mask, seed=seed, n_set=n_set, dfreq=dfreq, squeeze=False)
        df = out.fsc
        if not outa[0].equals(df):
            viol.append((sig("fsc_with_average-vs-fsc_with_halfmaps"), "the FSC tables of fsc_with_average() and fsc_with_halfmaps() differ"))
        if not df.equals(out2.fsc):
            viol.append((sig("not-reproducible"), f"two calls with seed {seed} differ"))
        df3 = ld.fsc(mask=mask, seed=seed, n_set=n_set, dfreq=dfreq)
        if not df.equals(df3):
            viol.append((sig("fsc-vs-fsc_with_halfmaps"), "fsc() and fsc_with_halfmaps() disagree"))
        if df.columns != ["freq"] + [f"FSC-{i}" for i in range(n_set)]:
            viol.append((sig("columns"), str(df.columns)))
        m_used = np.asarray(out.mask) if mk != "none" else np.ones(box, dtype=np.float32)
        if mref is not None and (np.shape(m_used) != box or np.abs(m_used - mref).max() > 1e-6):
            viol.append((sig("mask-not-the-requested-one"), f"mask used differs from the requested mask by {np.abs(np.broadcast_to(m_used, box) - mref).max():.3g}"))
        if mk == "converter" and (np.shape(m_used) != box or np.asarray(m_used).min() < -1e-6 or np.asarray(m_used).max() > 1 + 1e-6 or np.asarray(m_used).std() == 0):
            viol.append((sig("converter-mask-not-applied"), f"mask from the converter: shape {np.shape(m_used)}, range [{np.min(m_used)}, {np.max(m_used)}]"))
        for s_ in range(n_set):
            h0, h1 = np.asarray(out.halfmaps[0][s_]), np.asarray(out.halfmaps[1][s_])
            mm = mref if mref is not None else np.broadcast_to(m_used, box)
            _compare(df["freq"].to_numpy(), df[f"FSC-{s_}"].to_numpy(), h0 * mm, h1 * mm, dfreq, f"set {s_}", viol, sig)
    by = {}
    for s_, msg in viol:
        by.setdefault(s_, msg)
    return {"nontrivial": True, "outcome": f"loader|{lk}|{mk}|{'viol' if viol else 'ok'}", "viol": list(by.items())}
