"""C07 -- correlation scores mean what they say.

E1: image pairs x masks x cutoffs x tilt models x orientations x shapes x gains/offsets.
ZNCC / NCC scores are recomputed as Pearson / uncentred normalised correlation of the
masked, low-pass-filtered, wedge-masked images (using the library's *public*
low-pass and wedge primitives, which have their own properties C16 and C08);
metamorphic relations (gain, offset, identity, range) and the agreement between
score(), landscape centre, zero-range align() and landscape arg-max vs align().
"""
from __future__ import annotations

import numpy as np

from vf import data

ID = "C07"
LEVEL = "exploration"
DESIGN_REF = "DESIGN.md section 3, C07"
RULE = (
    "full product shape x pair construction x mask x cutoff x tilt/orientation x model (score semantics), plus "
    "shape x model x planted displacement x mask (landscape arg-max vs align); non-trivial = pair is not (t, t) "
    "or a mask / cutoff / wedge is active; distinct = distinct case tuples"
)
ASSUMPTIONS = [
    "boxes (6,6,6), (7,7,7), (6,8,7) for score semantics and (10,10,10), (9,10,11) for landscapes",
    "low-pass and wedge masks are taken from the library's public primitives (their correctness is C16 / C08)",
    "float32 tolerance 2e-4 on scores, range clause checked with epsilon 1e-3",
    "landscape arg-max vs align(): compared on planted displacements, agreement within one landscape cell (up-sampling re-interpolates)",
    "added during the seeding waves: partial and wide ranges, intensity gains 1e-4 / 1e4, multi-candidate landscapes with a bar mask, fit() against align(), call histories incl. a caller-owned quaternion buffer overwritten in place",
]

SHAPES = [(6, 6, 6), (7, 7, 7), (6, 8, 7)]
PAIRS = ["same", "affine:0.5:-2", "affine:3:5", "mix", "noise", "negated", "gain:3", "gain:0.0001", "gain:10000", "offset:5"]
MASKS = ["none", "binary", "soft"]
CUTOFFS = [None, 0.4]
TILTS = ["none", "y50:I", "y50:gen0", "x50:gen1"]
MODELS = ["ZNCC", "NCC", "FSC", "PCC"]


def AXES(tier):
    return {"shape": SHAPES, "pair": PAIRS, "mask": MASKS, "cutoff": CUTOFFS, "tilt": TILTS, "model": MODELS,
            "landscape_cases": len(_landscape_cases(tier))}


def cases(tier, seed):
    out = []
    for shape in SHAPES:
        for pair in PAIRS:
            for mask in MASKS:
                for cutoff in CUTOFFS:
                    for tilt in TILTS:
                        for model in MODELS:
                            out.append({"kind": "score", "shape": list(shape), "pair": pair, "mask": mask, "cutoff": cutoff,
                                        "tilt": tilt, "model": model, "seed": seed})
    # several candidates (searched rotations and/or templates) with a mask that is not rotation-invariant: the 4D landscape, one
    # slice per candidate, against align()
    for model in ("ZNCC", "NCC", "PCC"):
        for ntemp in (1, 2):
            for ups in (1, 2):
                for k in range(3):
                    out.append({"kind": "rot-landscape", "model": model, "ntemp": ntemp, "upsample": ups, "k": k})
    # call histories on ONE model object used for molecules of different orientations (what a loader does): a score, an
    # alignment or a landscape must not depend on which calls the model served before
    for model in MODELS:
        for rot in (False, True):
            for ntemp in (1, 2):
                if tier == "quick" and (model == "FSC" or (rot and ntemp == 2)):
                    continue
                out.append({"kind": "history", "model": model, "rot": rot, "ntemp": ntemp, "depth": 2 if tier == "quick" else 3})
    return out + _landscape_cases(tier)


def _landscape_cases(tier):
    out = []
    ds = [(0, 0, 0), (1, 0, 0), (0, -2, 0), (0, 0, 2), (1, -2, 1), (-2, 2, -1), (0.5, -1.5, 1.0)]
    if tier == "thorough":
        ds += [(2, 2, 2), (-2, -2, -2), (-1, 1, 0.25), (1.25, 0.75, -1.75)]
    for shape in [(10, 10, 10), (9, 10, 11)]:
        for model in MODELS:
            for mask in ("none", "soft"):
                for tilt in ("none", "y50:gen0"):
                    for ups in (1, 2) if tier == "quick" else (1, 2, 3):
                        for d in ds:
                            for off in (0.4, 5.0):  # a large constant offset separates mean-padding from zero-padding (uncentred NCC)
                                out.append({"kind": "landscape", "shape": list(shape), "model": model, "mask": mask, "tilt": tilt,
                                            "upsample": ups, "d": list(d), "offset": off})
    # search ranges that are zero on some axes only (a search restricted to a plane or a line; flat (1,N,N) boxes) and anisotropic ones
    for shape, M, ds2 in (((10, 10, 10), (0.0, 2.0, 2.0), [(0, -2, 1), (0, 1, 0), (0, 0, 0)]), ((10, 10, 10), (2.0, 0.0, 0.0), [(-2, 0, 0), (1, 0, 0)]),
                          ((9, 10, 11), (0.0, 0.0, 2.0), [(0, 0, -2)]), ((1, 12, 12), (0.0, 3.0, 3.0), [(0, 2, -1), (0, -3, 0)]),
                          ((9, 10, 11), (1.0, 2.5, 0.5), [(1, -2, 0.5), (-1, 0.5, 0)]), ((10, 10, 10), (0.0, 0.0, 0.0), [(0, 0, 0)])):
        for model in MODELS:
            for tilt in ("none", "y50:gen0"):
                for ups in (1, 2):
                    for d in ds2:
                        if shape[0] == 1 and (tilt != "none" or model == "FSC"):
                            continue
                        out.append({"kind": "landscape", "shape": list(shape), "model": model, "mask": "none", "tilt": tilt, "upsample": ups, "d": list(d), "offset": 0.4, "M": list(M)})
    return out


def _cls(name):
    from acryo import alignment as al

    return {"ZNCC": al.ZNCCAlignment, "NCC": al.NCCAlignment, "PCC": al.PCCAlignment, "FSC": al.FSCAlignment}[name]


def _blobs(shape):
    k = min(shape) / 12.0
    return [(a, tuple(k * c for c in cen), max(0.75, s * k)) for a, cen, s in data._BLOBS]


def _mask(kind, shape):
    if kind == "none":
        return None
    c = data.box_coords(shape)
    r = np.sqrt((c**2).sum(-1))
    r0 = min(shape) / 2 - 0.8
    if kind == "binary":
        return (r <= r0).astype(np.float32)
    return (1.0 / (1.0 + np.exp((r - r0) / 0.7))).astype(np.float32)


def _tilt(tilt):
    if tilt == "none":
        return None, None
    from acryo.tilt import single_axis

    ax = tilt[0]
    rn = {"I": "cube0", "gen0": "gen0", "gen1": "gen1"}[tilt.split(":")[1]]
    quat = data.scipy_rot(rn).as_quat().astype(np.float32)
    return single_axis((-50.0, 50.0), ax), quat


def _pair(kind, t, shape, seed):
    rng = np.random.default_rng(seed * 31 + 7)
    n = rng.standard_normal(shape).astype(np.float32)
    if kind == "same":
        return t.copy()
    if kind.startswith("affine"):
        _, a, b = kind.split(":")
        return (float(a) * t + float(b)).astype(np.float32)
    if kind == "mix":
        return (0.6 * t + 0.8 * n * t.std()).astype(np.float32)
    if kind == "noise":
        return n
    if kind == "negated":
        return (-t).astype(np.float32)
    if kind.startswith("gain"):
        return (0.6 * t + 0.8 * n * t.std()).astype(np.float32)  # base image; gain applied in the relation
    if kind.startswith("offset"):
        return (0.6 * t + 0.8 * n * t.std()).astype(np.float32)
    raise KeyError(kind)


def _prep(img, mask, cutoff, mw):
    from acryo.backend import Backend

    be = Backend()
    x = img if mask is None else img * mask
    ft = be.lowpass_filter_ft(x.astype(np.float32), cutoff if cutoff else 1.0)
    if mw is not None:
        ft = ft * mw
    return np.fft.ifftn(ft).real


def pearson(a, b):
    a = a - a.mean()
    b = b - b.mean()
    return float((a * b).sum() / np.sqrt((a * a).sum() * (b * b).sum()))


def uncentred(a, b):
    return float((a * b).sum() / np.sqrt((a * a).sum() * (b * b).sum()))


_CACHE = {}


def _get_model(shape, mname, maskk, cutoff, tilt):
    key = (shape, mname, maskk, cutoff, tilt)
    if key not in _CACHE:
        if len(_CACHE) > 8:
            _CACHE.clear()
        t = (data.particle_box(shape, blobs=_blobs(shape)) + 0.2).astype(np.float32)
        kw = {}
        m = _mask(maskk, shape)
        if m is not None:
            kw["mask"] = m
        if cutoff is not None:
            kw["cutoff"] = cutoff
        tm, quat = _tilt(tilt)
        if tm is not None:
            kw["tilt"] = tm
        _CACHE[key] = (_cls(mname)(t, **kw), t, m, quat)
    return _CACHE[key]


def _run_history(case):
    from vf import history

    shape = (7, 8, 6)
    mname = case["model"]
    rng = np.random.default_rng(11)
    t0 = (data.particle_box(shape, blobs=_blobs(shape)) + 0.2).astype(np.float32)
    t1 = (data.particle_box(shape, blobs=_blobs(shape)[::-1]) + 0.1).astype(np.float32)
    img = (1.5 * data.particle_box(shape, shift=(0.5, -1.0, 0.0), blobs=_blobs(shape)) + 0.05 * rng.standard_normal(shape) + 0.3).astype(np.float32)
    quats = {"q1": data.scipy_rot("gen0").as_quat().astype(np.float32), "q2": data.scipy_rot("gen1").as_quat().astype(np.float32),
             "qI": np.array([0, 0, 0, 1], dtype=np.float32)}
    pos = np.zeros(3, dtype=np.float32)
    kw = {"tilt": (-60.0, 60.0)}
    if case["rot"]:
        kw["rotations"] = ((0, 0), (0, 0), (30, 30))

    def make():
        # the model, and a quaternion buffer that the caller re-uses for successive molecules (overwritten in place)
        return {"m": _cls(mname)(t0 if case["ntemp"] == 1 else [t0, t1], **kw), "q": quats["q1"].copy()}

    ops = []
    for qn, q in quats.items():
        ops.append((f"score({qn})", lambda st, q=q: np.asarray(st["m"].score(img, q, pos))))
        ops.append((f"align({qn})", lambda st, q=q: (lambda r: [int(r.label), np.asarray(r.shift), np.asarray(r.quat), float(r.score)])(st["m"].align(img, (1.5, 1.5, 1.5), q, pos))))
        ops.append((f"landscape({qn})", lambda st, q=q: np.asarray(st["m"].landscape(img, (1.0, 1.0, 1.0), q, pos))))
        if qn != "qI":
            ops.append((f"landscape({qn},upsample=2)", lambda st, q=q: np.asarray(st["m"].landscape(img, (1.0, 1.0, 1.0), q, pos, upsample=2))))
            if mname == "ZNCC" and case["ntemp"] == 1 and not case["rot"]:
                ops.append((f"masked_difference({qn})", lambda st, q=q: np.asarray(st["m"].masked_difference(img, q))))
            ops.append((f"wedge({qn})", lambda st, q=q: np.asarray(st["m"].get_missing_wedge_mask(q))))
    ops.append(("score(buffer)", lambda st: np.asarray(st["m"].score(img, st["q"], pos))))
    ops.append(("wedge(buffer)", lambda st: np.asarray(st["m"].get_missing_wedge_mask(st["q"]))))
    ops.append(("align(buffer)", lambda st: (lambda r: [int(r.label), np.asarray(r.shift), float(r.score)])(st["m"].align(img, (1.5, 1.5, 1.5), st["q"], pos))))

    def setbuf(qn):
        def f(st):
            st["q"][:] = quats[qn]
        return f

    mutators = [(f"buffer[:]={qn}", setbuf(qn)) for qn in ("q2", "qI", "q1")]
    res = history.explore(make, ops, case["depth"], atol=2e-5, rtol=1e-4)
    # the re-used buffer needs observation - overwrite - observation: depth 3 on the small alphabet that touches it
    res3 = history.explore(make, [o for o in ops if "buffer" in o[0]], 3, atol=2e-5, rtol=1e-4, mutators=mutators)
    for k in ("sequences", "calls"):
        res[k] += res3[k]
    for k in ("failures", "errors", "nondeterministic", "raises_alone"):
        res[k] = list(res[k]) + list(res3[k])
    viol, seen = [], set()
    for n_ in sorted(set(res["raises_alone"])):
        # every operation of the alphabet is a valid call on valid input (and returns on the pinned tree)
        viol.append((f"{ID}|{mname}|history|raises-on-a-fresh-model|{n_.split('(')[0]}", f"{mname} model (rotations {case['rot']}, {case['ntemp']} template(s)): {n_} raised {res['raises_alone_msg'].get(n_, res3['raises_alone_msg'].get(n_))}"))
    for hist, why in res["failures"]:
        sg = f"{ID}|{mname}|history|{hist[-1].split('(')[0]}-after-{hist[-2].split('(')[0]}"
        if sg not in seen:
            seen.add(sg)
            viol.append((sg, f"{mname} model (rotations {case['rot']}, {case['ntemp']} template(s), tilt +-60): {hist[-1]} after {hist[:-1]} differs from the same call on a fresh model: {why}"))
    for hist, err in res["errors"]:
        sg = f"{ID}|{mname}|history|raised"
        if sg not in seen:
            seen.add(sg)
            viol.append((sg, f"{hist} raised {err}"))
    if res["nondeterministic"]:
        viol.append((f"{ID}|{mname}|history|not-reproducible", f"{res['nondeterministic']} differ between two fresh models"))
    return {"nontrivial": True, "outcome": f"history|{mname}|{'viol' if viol else 'ok'}", "viol": viol,
            "metrics": {"history_sequences": res["sequences"], "history_calls": res["calls"]}}


def _run_rot_landscape(case):
    from scipy.spatial.transform import Rotation

    shape = (10, 10, 10)
    mname, ntemp, ups, k = case["model"], case["ntemp"], case["upsample"], case["k"]
    t0 = (data.particle_box(shape, blobs=_blobs(shape))).astype(np.float32)
    t1 = (data.particle_box(shape, blobs=_blobs(shape)[::-1])).astype(np.float32)
    c = data.box_coords(shape)
    bar = (1.0 / (1.0 + np.exp((np.max(np.abs(c) / np.array([4.4, 3.2, 2.4]), axis=-1) - 1.0) * 6.0))).astype(np.float32)
    rots = Rotation.from_rotvec([[0.0, 0.0, 0.0], [0.0, 0.0, 0.6], [0.5, 0.0, 0.0]])
    model = _cls(mname)(t0 if ntemp == 1 else [t0, t1], mask=bar, rotations=rots)
    quats = np.asarray(model.quaternions)
    R = Rotation.from_quat(quats[k]).as_matrix()
    d = np.array([1.0, -1.0, 0.0])
    img = (2.0 * data.particle_box(shape, shift=d, rot=R, blobs=_blobs(shape)) + 0.3).astype(np.float32)
    M = (2.0, 2.0, 2.0)
    res = model.align(img, M)
    lds = np.asarray(model.landscape(img, M, upsample=ups))
    viol = []
    sig = lambda what: f"{ID}|{mname}|{what}|candidates={'rotations' if ntemp == 1 else 'rotations x templates'}"  # noqa
    ncand = len(quats) * ntemp
    if lds.ndim != 4 or lds.shape[0] != ncand or not np.all(np.isfinite(lds)):
        viol.append((sig("landscape-shape"), f"landscape shape {lds.shape} for {ncand} candidates"))
    else:
        cand, *am = np.unravel_index(int(np.argmax(lds)), lds.shape)
        centre = (np.asarray(lds.shape[1:]) - 1) / 2
        peak = (np.asarray(am, dtype=np.float64) - centre) / ups
        tol = 1.0 / ups + 0.1 + 1e-6
        at = lds[(int(res.label),) + tuple(np.clip(np.round(centre + np.asarray(res.shift, dtype=np.float64) * ups).astype(int), 0, np.asarray(lds.shape[1:]) - 1))]
        rng_ = float(lds.max() - lds.min())
        if (int(cand) != int(res.label) or np.abs(peak - np.asarray(res.shift)).max() > tol) and lds.max() - at > 0.02 * rng_:
            viol.append((sig("argmax-vs-align"), f"planted rotation {k}, d={d.tolist()}: the landscape is maximal in candidate {int(cand)} at shift {peak.tolist()}, align reports candidate {int(res.label)} at {np.round(res.shift, 2).tolist()} (landscape there {100 * (lds.max() - at) / max(rng_, 1e-30):.0f} % of its range below the maximum)"))
        if mname in ("ZNCC", "NCC") and abs(float(lds.max()) - float(res.score)) > 0.03:
            viol.append((sig("peak-vs-score"), f"landscape maximum {float(lds.max()):.4f} but alignment score {float(res.score):.4f}"))
    # fit() scores the same candidates in one batch: same candidate, shift and score as align()
    if hasattr(model, "fit"):
        try:
            _, rf = model.fit(img, M)
            # (align labels the candidate, rotation-major; fit labels the template: candidate % n_templates, and reports the rotation)
            if int(rf.label) != int(res.label) % ntemp or np.abs(np.asarray(rf.shift, dtype=np.float64) - np.asarray(res.shift, dtype=np.float64)).max() > 0.051 or abs(float(rf.score) - float(res.score)) > 1e-3 * max(1.0, abs(float(res.score))) or np.abs(np.asarray(rf.quat) - np.asarray(res.quat)).max() > 1e-6:
                viol.append((sig("fit-vs-align"), f"planted rotation {k}, d={d.tolist()}: fit reports candidate {int(rf.label)}, shift {np.round(rf.shift, 2).tolist()}, score {float(rf.score):.5f}; align reports candidate {int(res.label)}, shift {np.round(res.shift, 2).tolist()}, score {float(res.score):.5f}"))
        except Exception as e:  # noqa
            viol.append((sig(f"fit-raised-{type(e).__name__}"), str(e)[:200]))
    return {"nontrivial": True, "outcome": f"rot-landscape|{mname}|{'viol' if viol else 'ok'}", "viol": viol}


def run_case(case):
    if case["kind"] == "landscape":
        return _run_landscape(case)
    if case["kind"] == "rot-landscape":
        return _run_rot_landscape(case)
    if case["kind"] == "history":
        return _run_history(case)
    shape = tuple(case["shape"])
    mname = case["model"]
    model, t, m, quat = _get_model(shape, mname, case["mask"], case["cutoff"], case["tilt"])
    pair = case["pair"]
    img = _pair(pair, t, shape, case["seed"])
    q = quat if quat is not None else np.array([0, 0, 0, 1], dtype=np.float32)
    pos = np.zeros(3, dtype=np.float32)
    active = f"mask={case['mask']},cutoff={'on' if case['cutoff'] else 'off'},tilt={'on' if case['tilt'] != 'none' else 'off'}"
    sig = lambda what: f"{ID}|{mname}|{what}|{active}"  # noqa
    viol = []
    s = float(model.score(img, q, pos))
    mw = None if quat is None else np.asarray(model.get_missing_wedge_mask(q)).astype(np.float64)
    pa = _prep(img, m, case["cutoff"], mw)
    pt = _prep(t, m, case["cutoff"], mw)
    if not np.isfinite(s):
        viol.append((sig("non-finite"), f"score={s} for pair {pair}"))
        return {"nontrivial": True, "outcome": f"{mname}|nonfinite", "viol": viol}
    if mname in ("ZNCC", "NCC"):
        ref = pearson(pa, pt) if mname == "ZNCC" else uncentred(pa, pt)
        if abs(s - ref) > 2e-4:
            viol.append((sig("definition"), f"score {s:.5f} != {'Pearson' if mname == 'ZNCC' else 'uncentred NCC'} {ref:.5f} of the prepared images (pair {pair}, shape {shape})"))
        if abs(s) > 1 + 1e-3:
            viol.append((sig("range"), f"score {s:.5f} outside [-1, 1]"))
    if mname in ("ZNCC", "NCC", "FSC") and pair == "same" and abs(s - 1.0) > 2e-4:
        viol.append((sig("identity"), f"score of the template against itself = {s:.5f}"))
    if mname == "FSC" and abs(s) > 1 + 1e-3:
        viol.append((sig("range"), f"FSC score {s:.5f} outside [-1, 1]"))
    if pair.startswith("gain"):
        a = float(pair.split(":")[1])
        s2 = float(model.score((a * img).astype(np.float32), q, pos))
        if mname != "PCC" and abs(s2 - s) > 2e-4:
            viol.append((sig("gain-invariance"), f"score {s:.5f} -> {s2:.5f} after multiplying the sub-volume by {a}"))
        if mname in ("ZNCC", "FSC"):
            # the rescaled sub-volume through the other two entry points
            img2 = (a * img).astype(np.float32)
            l2 = np.asarray(model.landscape(img2, (1.0, 1.0, 1.0), quaternion=q, pos=pos))
            c2 = float(l2[tuple(n // 2 for n in l2.shape)])
            z2 = float(model.align(img2, (0.0, 0.0, 0.0), quaternion=q, pos=pos).score)
            if abs(c2 - s) > 3e-4 or abs(z2 - s) > 3e-4:
                viol.append((sig("gain-invariance"), f"score {s:.5f}; after multiplying the sub-volume by {a}: landscape centre {c2:.5f}, zero-range alignment score {z2:.5f}"))
    if pair.startswith("offset") and mname == "ZNCC" and case["mask"] == "none":
        b = float(pair.split(":")[1])
        s2 = float(model.score((img + b).astype(np.float32), q, pos))
        if abs(s2 - s) > 3e-4:
            viol.append((sig("offset-invariance"), f"unmasked ZNCC score {s:.5f} -> {s2:.5f} after adding {b}"))
    # score == landscape centre == zero-range alignment score (normalised models)
    if mname in ("ZNCC", "FSC"):
        lds = np.asarray(model.landscape(img, (1.0, 1.0, 1.0), quaternion=q, pos=pos))
        centre = float(lds[tuple(n // 2 for n in lds.shape)])
        z = float(model.align(img, (0.0, 0.0, 0.0), quaternion=q, pos=pos).score)
        if abs(centre - s) > 2e-4:
            viol.append((sig("landscape-centre"), f"score {s:.5f} but landscape centre {centre:.5f} (landscape shape {lds.shape}, pair {pair})"))
        if abs(z - s) > 2e-4:
            viol.append((sig("zero-range-align"), f"score {s:.5f} but align(max_shifts=0).score {z:.5f} (pair {pair})"))
    nontrivial = pair != "same" or active != "mask=none,cutoff=off,tilt=off"
    return {"nontrivial": bool(nontrivial), "outcome": f"{mname}|{pair.split(':')[0]}|{'viol' if viol else 'ok'}", "viol": viol}


def _run_landscape(case):
    shape = tuple(case["shape"])
    mname = case["model"]
    model, t, m, quat = _get_model(shape, mname, case["mask"], None, case["tilt"])
    d = np.asarray(case["d"], dtype=np.float64)
    ups = case["upsample"]
    img = (2.0 * data.particle_box(shape, shift=d, blobs=_blobs(shape)) + case.get("offset", 0.4)).astype(np.float32)
    M = tuple(case.get("M", (2.0, 2.0, 2.0)))
    q = quat if quat is not None else np.array([0, 0, 0, 1], dtype=np.float32)
    res = model.align(img, M, quaternion=q)
    lds = np.asarray(model.landscape(img, M, quaternion=q, upsample=ups))
    viol = []
    sig = lambda what: f"{ID}|{mname}|{what}|upsample={'1' if ups == 1 else '>1'}" + ("|partial-range" if "M" in case else "")  # noqa
    if not np.all(np.isfinite(lds)):
        viol.append((sig("landscape-non-finite"), f"shape {lds.shape}"))
    else:
        centre = (np.asarray(lds.shape) - 1) / 2
        am = np.asarray(np.unravel_index(int(np.argmax(lds)), lds.shape), dtype=np.float64)
        peak = (am - centre) / ups
        # ties: accept any maximal cell
        tol = 1.0 / ups + (0.5 if mname == "FSC" else 0.1) + 1e-6
        if np.abs(peak - np.asarray(res.shift)).max() > tol:
            # a flat ridge sampled on a coarse grid can have its discrete arg-max more than a sample away from the continuous one:
            # the reported displacement must then at least be a maximiser in value (within 2 % of the landscape's range)
            idx = np.clip(np.round(centre + np.asarray(res.shift, dtype=np.float64) * ups).astype(int), 0, np.asarray(lds.shape) - 1)
            at_shift = float(lds[tuple(idx)])
            rng_ = float(lds.max() - lds.min())
            if lds.max() - at_shift > 0.02 * rng_:
                viol.append((sig("argmax-vs-align"), f"planted d={d.tolist()}: landscape {lds.shape} peaks at shift {peak.tolist()} but align reports {np.round(res.shift, 3).tolist()} (landscape there is {100 * (lds.max() - at_shift) / max(rng_, 1e-30):.1f} % of its range below the maximum)"))
    return {"nontrivial": bool(np.any(d != 0)), "outcome": f"landscape|{mname}|{'viol' if viol else 'ok'}", "viol": viol}
