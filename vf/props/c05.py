"""C05 -- alignment stays inside the search range and never fails on a valid range.

E1: max_shifts alphabet (on / off the 1/20 refinement grid, zero, below one pixel,
anisotropic, larger than the box) x box shapes x models x rotation search x template
count x data classes, including deterministic boundary-forcing inputs whose optimum
lies on or beyond the permitted range whatever the seed.  Second product: the same
bound observed through loader.align / align_multi_templates / LoaderGroup.align on
the molecules (displacement measured in the input molecule's own frame).
"""
from __future__ import annotations

import numpy as np

from vf import data

ID = "C05"
LEVEL = "exploration"
DESIGN_REF = "DESIGN.md section 3, C05"
RULE = (
    "full product max_shifts x shape x model x rotation search x template count x data class "
    "(noise volumes seeded by VERIF_SEED, constant, unrelated particle, template displaced to +-M, M+0.4, M+1 on each axis); "
    "plus loader-level product (entry point x max_shifts form x scale x model); non-trivial = max_shifts not all zero "
    "or data forces the boundary; distinct = distinct case tuples"
)
ASSUMPTIONS = [
    "box sides 4..8; max_shifts from a 14-value alphabet that straddles every grid the code uses (integer, 0.05, 0.75 px)",
    "VERIF_SEED only changes the values inside the noise volumes, not which cases are enumerated",
    "FSC with max_shifts > 3 is enumerated in the thorough tier only (cost grows with (2*ceil(M)+3)^3)",
    "bound checked as |shift_i| <= max_i + 1e-4 px (float32 rounding of the refinement grid)",
    "added during the seeding waves: max_shifts handed over as float32 / float64 arrays and used for two align calls and a fit (the array is compared afterwards)",
]

MODELS = ["ZNCC", "NCC", "PCC", "FSC"]
SHAPES = [(4, 4, 4), (5, 5, 5), (6, 6, 6), (4, 6, 5), (8, 8, 8)]
MS = [0, 0.04, 0.12, 0.33, 0.5, 0.58, 0.75, 1, 1.37, 2.5, 5.8, (0, 1.5, 3.2), (0.33, 0, 2), "box+3"]


def _resolve_M(m, shape):
    if m == "box+3":
        return [float(n + 3) for n in shape]
    if isinstance(m, (list, tuple)):
        return [float(x) for x in m]
    return [float(m)] * 3


def _data_classes(tier):
    out = ["noise:0", "noise:1", "constant", "unrelated"]
    if tier == "thorough":
        out += ["noise:2", "noise:3", "zero"]
    for ax in range(3):
        for sgn in (1, -1):
            for off in (0.0, 0.4, 1.0):
                out.append(f"force:{ax}:{sgn}:{off}")
    return out


def AXES(tier):
    return {"max_shifts": MS, "shape": SHAPES, "model": MODELS, "rotations": ["off", "3"], "n_templates": [1, 2],
            "data": _data_classes(tier), "loader_level": len(_loader_cases(tier, 0))}


def cases(tier, seed):
    out = []
    for m in MS:
        for shape in SHAPES:
            M = _resolve_M(m, shape)
            for model in MODELS:
                if model == "FSC" and max(M) > 3 and tier == "quick":
                    continue
                if model == "FSC" and max(M) > 6 and shape != (4, 4, 4):
                    continue
                for rot in ("off", "3"):
                    for nt in (1, 2):
                        if model == "FSC" and (rot == "3" and nt == 2):
                            continue
                        for dc in _data_classes(tier):
                            if model == "FSC" and tier == "quick" and dc.startswith("force") and not dc.endswith(":0.4"):
                                continue
                            out.append({"kind": "model", "M": M, "Mname": str(m), "shape": list(shape), "model": model,
                                        "rot": rot, "nt": nt, "data": dc, "seed": seed})
    return out + _loader_cases(tier, seed)


def _loader_cases(tier, seed):
    out = []
    for entry in ("align", "align(stack)", "align(list)", "align_multi_templates", "align_multi_templates:default", "group.align", "group.align_multi_templates", "align_no_template"):
        for form in ("scalar", "tuple"):
            for scale in (1.0, 0.4, 2.5):
                for model in ("ZNCC", "PCC") if tier == "quick" else MODELS:
                    for mpx in (0.33, 1.37, 0.0, 2.5):
                        if entry.endswith("default") and (form != "scalar" or mpx != 0.33):
                            continue
                        out.append({"kind": "loader", "entry": entry, "form": form, "scale": scale, "model": model,
                                    "Mpx": mpx, "seed": seed})
    return out


def _blobs(shape, mirror=False):
    k = min(shape) / 12.0
    sg = -1.0 if mirror else 1.0
    return [(a, tuple(sg * k * c for c in cen), max(0.7, s * k)) for a, cen, s in data._BLOBS]


def _cls(name):
    from acryo import alignment as al

    return {"ZNCC": al.ZNCCAlignment, "NCC": al.NCCAlignment, "PCC": al.PCCAlignment, "FSC": al.FSCAlignment}[name]


_CACHE = {}


def _model(shape, model, rot, nt):
    key = (shape, model, rot, nt)
    if key not in _CACHE:
        if len(_CACHE) > 6:
            _CACHE.clear()
        t0 = data.particle_box(shape, blobs=_blobs(shape))
        tmpl = t0 if nt == 1 else [t0, data.particle_box(shape, blobs=_blobs(shape, mirror=True))]
        kw = {}
        if rot == "3":
            kw["rotations"] = ((0, 0), (0, 0), (20, 20))
        _CACHE[key] = (_cls(model)(tmpl, **kw), t0)
    return _CACHE[key]


def _subvolume(case, shape, M):
    dc = case["data"]
    if dc.startswith("noise"):
        k = int(dc.split(":")[1])
        return np.random.default_rng(case["seed"] * 1000 + k).standard_normal(shape).astype(np.float32)
    if dc == "constant":
        return np.full(shape, 2.5, dtype=np.float32)
    if dc == "zero":
        return np.zeros(shape, dtype=np.float32)
    if dc == "unrelated":
        return data.particle_box(shape, blobs=_blobs(shape, mirror=True), shift=(0.3, -0.2, 0.1))
    _, ax, sgn, off = dc.split(":")
    d = [0.0, 0.0, 0.0]
    d[int(ax)] = float(sgn) * (M[int(ax)] + float(off))
    return (2.0 * data.particle_box(shape, blobs=_blobs(shape), shift=d) + 0.3).astype(np.float32)


def run_case(case):
    if case["kind"] == "loader":
        return _run_loader(case)
    shape = tuple(case["shape"])
    M = case["M"]
    model, _ = _model(shape, case["model"], case["rot"], case["nt"])
    img = _subvolume(case, shape, M)
    mname = case["model"]
    mclass = "zero" if max(M) == 0 else ("sub-0.75" if max(M) < 0.75 else ("beyond-box" if max(M) >= min(shape) else "regular"))
    sig = lambda kind: f"{ID}|{mname}|{kind}|M:{mclass}|data:{case['data'].split(':')[0]}"  # noqa
    viol = []
    try:
        res = model.align(img, tuple(M))
    except Exception as e:  # the statement: alignment completes without raising
        from vf.core import acryo_frame

        return {"nontrivial": True, "outcome": f"{mname}|raised", "viol": [
            (sig(f"raised-{type(e).__name__}") , f"{type(e).__name__}: {e} at {acryo_frame(e.__traceback__)} (M={M}, shape={shape}, data={case['data']})")]}
    shift = np.asarray(res.shift, dtype=np.float64)
    score = float(res.score)
    if not np.all(np.isfinite(shift)):
        viol.append((sig("shift-non-finite"), f"shift={shift.tolist()} (M={M})"))
    else:
        exc = np.abs(shift) - np.asarray(M)
        if exc.max() > 1e-4:
            viol.append((sig("out-of-range"), f"shift={np.round(shift, 4).tolist()} exceeds max_shifts={M} by {exc.max():.4f} px (shape={shape}, data={case['data']})"))
    if not np.isfinite(score):
        viol.append((sig("score-non-finite"), f"score={score} (M={M}, shape={shape}, data={case['data']})"))
    if case["data"] in ("noise:0", "force:2:1:0.4") and not viol:
        # the range handed over as a numpy array of either float type and used for several calls (a refinement loop keeps
        # one array): same answers as with the tuple, the array stays what it was
        for dt in (np.float32, np.float64):
            Marr = np.array(M, dtype=dt)
            try:
                outs = [model.align(img, Marr), model.align(img, Marr)]
                if hasattr(model, "fit"):
                    outs.append(model.fit(img, Marr)[1])
            except Exception as e:  # noqa
                viol.append((sig("array-range-raised"), f"max_shifts as {np.dtype(dt).name} array {M}: {type(e).__name__}: {e}"))
                break
            for ci, r2 in enumerate(outs):
                sh2 = np.asarray(r2.shift, dtype=np.float64)
                if not np.all(np.isfinite(sh2)) or (np.abs(sh2) - np.asarray(M)).max() > 1e-4 or (ci < 2 and np.abs(sh2 - shift).max() > 1e-5):
                    viol.append((sig("array-range-differs"), f"max_shifts as {np.dtype(dt).name} array {M}, call #{ci + 1} ({'align' if ci < 2 else 'fit'}): shift {np.round(sh2, 4).tolist()}; with the tuple: {np.round(shift, 4).tolist()}"))
                    break
            if not np.array_equal(Marr, np.array(M, dtype=dt)):
                viol.append((sig("range-argument-modified"), f"the caller's max_shifts array ({np.dtype(dt).name}) {M} became {Marr.tolist()}"))
            if viol:
                break
    forced = case["data"].startswith("force")
    return {
        "nontrivial": bool(max(M) > 0 or forced),
        "outcome": f"{mname}|{mclass}|{'forced' if forced else 'free'}|{'viol' if viol else 'ok'}",
        "viol": viol,
        "metrics": {"max_abs_shift_minus_M": float((np.abs(shift) - np.asarray(M)).max()) if np.all(np.isfinite(shift)) else 99.0},
    }


# ------------------------------------------------------------------ loader level
def _run_loader(case):
    import dask
    import polars as pl  # noqa
    from scipy.spatial.transform import Rotation

    from acryo import Molecules, SubtomogramLoader

    dask.config.set(scheduler="synchronous")
    scale = case["scale"]
    shape = (8, 8, 8)
    tshape = (22, 24, 26)
    rng = np.random.default_rng(case["seed"] * 77 + 5)
    tomo = rng.standard_normal(tshape).astype(np.float32)
    # plant the particle so that the optimum lies beyond the range for every molecule
    t0 = data.particle_box(shape, blobs=_blobs(shape))
    pos_px = np.array([[8.0, 9.0, 10.0], [12.5, 13.0, 11.2], [10.0, 14.0, 15.5], [13.0, 9.5, 14.0]])
    rots = Rotation.from_rotvec([[0, 0, 0], [0.4, -0.7, 0.5], [0, 0, np.pi / 2], [-1.1, 0.3, 0.2]])
    for p in pos_px:
        c = np.round(p).astype(int) + np.array([3, -3, 2])
        sl = tuple(slice(ci - 4, ci + 4) for ci in c)
        tomo[sl] += 4 * t0
    mole = Molecules(pos_px * scale, rots, features={"g": [0, 1, 0, 1], "uid": [0, 1, 2, 3]})
    loader = SubtomogramLoader(tomo, mole, order=1, scale=scale, output_shape=shape)
    mpx = case["Mpx"]
    mnm = mpx * scale
    max_shifts = mnm if case["form"] == "scalar" else (mnm, mnm * 0.5, mnm)
    Mpx_vec = np.array([mpx, mpx, mpx] if case["form"] == "scalar" else [mpx, mpx * 0.5, mpx])
    model = _cls(case["model"])
    t1 = data.particle_box(shape, blobs=_blobs(shape, mirror=True))
    entry = case["entry"]
    viol = []
    sig = lambda kind: f"{ID}|loader.{entry}|{kind}|{case['model']}"  # noqa
    outs = []
    try:
        if entry == "align":
            outs = [loader.align(t0, max_shifts=max_shifts, alignment_model=model).molecules]
        elif entry == "align(stack)":
            outs = [loader.align(np.stack([t0, t1]), max_shifts=max_shifts, alignment_model=model).molecules]
        elif entry == "align(list)":
            outs = [loader.align([t1, t0], max_shifts=max_shifts, alignment_model=model).molecules]
        elif entry == "align_multi_templates":
            outs = [loader.align_multi_templates([t0, t1], max_shifts=max_shifts, alignment_model=model).molecules]
        elif entry == "align_multi_templates:default":
            outs = [loader.align_multi_templates([t0, t1], alignment_model=model).molecules]
            Mpx_vec = np.array([1.0, 1.0, 1.0]) / scale  # documented default: 1 nm
        elif entry == "align_no_template":
            outs = [loader.align_no_template(max_shifts=max_shifts, alignment_model=model).molecules]
        elif entry == "group.align":
            g = loader.groupby("g").align(t0, max_shifts=max_shifts, alignment_model=model)
            outs = [ldr.molecules for _, ldr in g]
        elif entry == "group.align_multi_templates":
            g = loader.groupby("g").align_multi_templates([t0, t1], max_shifts=max_shifts, alignment_model=model)
            outs = [ldr.molecules for _, ldr in g]
    except Exception as e:
        from vf.core import acryo_frame

        return {"nontrivial": True, "outcome": "raised", "viol": [(sig(f"raised-{type(e).__name__}"), f"{type(e).__name__}: {e} at {acryo_frame(e.__traceback__)} (max_shifts={max_shifts}, scale={scale})")]}
    n = 0
    worst = -9.0
    for out in outs:
        feat = out.features
        for i in range(len(out)):
            j = int(feat["uid"][i])  # the input molecule this row was derived from
            R_in = rots[j].as_matrix()
            local = R_in.T @ (out.pos[i] - mole.pos[j]) / scale
            exc = np.abs(local) - Mpx_vec
            worst = max(worst, float(exc.max()))
            n += 1
            if not np.all(np.isfinite(local)) or exc.max() > 2e-3:
                viol.append((sig("out-of-range"), f"molecule {j} moved by {np.round(local, 4).tolist()} px in its own frame; max_shifts px = {Mpx_vec.tolist()} (scale {scale})"))
                break
        for col in feat.columns:
            if col.startswith("align-d") and not col.endswith("rot"):
                pass
        if "score" in feat.columns and not np.all(np.isfinite(feat["score"].to_numpy())):
            viol.append((sig("score-non-finite"), f"scores {feat['score'].to_list()}"))
    if n != 4 and not viol:
        viol.append((sig("molecule-count"), f"{n} molecules returned for 4"))
    return {"nontrivial": bool(mpx > 0), "outcome": f"loader|{entry}|{'viol' if viol else 'ok'}", "viol": viol,
            "metrics": {"loader_max_excess_px": worst}}
