"""C12 -- table operations keep a molecule's position, orientation and features together.

E2: explicit-state breadth-first search over histories of Molecules table operations.
Rows are uid-functional (position, orientation and every feature value are fixed
functions of an integer uid), so after any history every row can be checked on its own,
and states can be merged on (ordered uid tuple, feature schema).  Every transition is the
real method; the reference model is a tuple of uids (a relation for sample / tied sorts);
the frame condition is checked for every non-mutating operation; invalid inputs must be
rejected and leave the receiver unchanged.
"""
from __future__ import annotations

import collections

import itertools

import numpy as np

ID = "C12"
LEVEL = "model_checking"
ENGINE = "E2 explicit-state BFS over table-operation histories"
TECHNIQUE = ("explicit-state breadth-first exploration of Molecules table-operation histories to closure on the real objects, "
             "relational reference model on uid tuples, per-row uid-functional predicate in every state")
DESIGN_REF = "DESIGN.md section 3, C12"
RULE = (
    "states = (ordered uid tuple, feature schema) reachable from the initial tables (0..3 rows; thorough 0..4) under subset / filter / sort / head / tail / "
    "sample / concat / concat_with / append / with_features / drop_features / group_by / cutby / copy / dataframe round trip; explored to closure with a "
    "growth cap; every transition checked against the relational model, every state against the per-row predicate; invalid-input probes in every state"
)
LEVEL_TEXT = ("all table states reachable by the operation alphabet are enumerated to closure (growth operations enabled once per history); every transition "
              "is validated against the relational model and the frame condition, every reached state row by row")
ASSUMPTIONS = [
    "base table of 3 rows (thorough 4) plus one (thorough two) foreign rows that growth operations may add once; row cap 4 (thorough 6)",
    "specifications outside the documented parameter types (a polars boolean Series passed to subset) may either work correctly or raise",
    "orientations compared to 1e-5 rad (float32 rotation vectors in data-frame round trips)",
    "added during the seeding waves: cutby / group_by on a key with nulls or NaNs (rejected loudly or a partition), empty selections keep the feature schema, accumulator idioms, a same-object family (read-only operations x in-place updates incl. axis vectors), tables without features / with a feature of another dtype through concat, concat_with, append (all ordered pairs; thorough: triples)",
]


def _f_pos(u):
    return np.array([u + 0.25, 10.0 - 2 * u, (u * 7) % 5 + 0.5], dtype=np.float32)


def _f_rotvec(u):
    v = np.array([0.3 + 0.1 * u, -0.2 * (u % 3), 0.15 * ((u * 5) % 4)])
    return v


K = {0: 2, 1: 0, 2: 3, 3: 1, 10: 5, 11: 4}
K2 = {0: 1, 1: 0, 2: 1, 3: 0, 10: 2, 11: 1}
S = {0: "a", 1: None, 2: "c", 3: "a", 10: "x", 11: None}
B = {0: True, 1: False, 2: None, 3: True, 10: False, 11: None}


def make(uids, extra_cols=()):
    import polars as pl
    from scipy.spatial.transform import Rotation

    from acryo import Molecules

    uids = list(uids)
    pos = np.array([_f_pos(u) for u in uids], dtype=np.float32).reshape(-1, 3)
    rot = Rotation.from_rotvec(np.array([_f_rotvec(u) for u in uids]).reshape(-1, 3)) if uids else None
    cols = {
        "uid": pl.Series("uid", uids, dtype=pl.Int64),
        "k": pl.Series("k", [K[u] for u in uids], dtype=pl.Int64),
        "k2": pl.Series("k2", [K2[u] for u in uids], dtype=pl.Int64),
        "f32": pl.Series("f32", [u * 0.5 for u in uids], dtype=pl.Float32),
        "f64": pl.Series("f64", [u * 1.25 for u in uids], dtype=pl.Float64),
        "s": pl.Series("s", [S[u] for u in uids], dtype=pl.Utf8),
        "b": pl.Series("b", [B[u] for u in uids], dtype=pl.Boolean),
    }
    for c in extra_cols:
        cols[c] = pl.Series(c, [2 * u for u in uids], dtype=pl.Int64)
    return Molecules(pos, rot, features=pl.DataFrame(cols))


BASE_SCHEMA = ("uid", "k", "k2", "f32", "f64", "s", "b")


def uids_of(m):
    if m.count() == 0:
        return ()
    return tuple(int(u) for u in m.features["uid"].to_list())


def schema_of(m):
    return tuple(m.features.columns)


def check_rows(m):
    """per-row predicate; returns list of (kind, msg)"""
    from scipy.spatial.transform import Rotation

    out = []
    n = m.count()
    f = m.features
    if m.pos.shape != (n, 3) or (n > 0 and len(m.rotator) != n) or (n > 0 and len(f) != n):
        out.append(("length-mismatch", f"{m.pos.shape[0]} positions, {len(m.rotator) if n else 0} orientations, {len(f)} feature rows"))
        return out
    if n == 0:
        return out
    u = uids_of(m)
    for i, x in enumerate(u):
        if np.abs(m.pos[i] - _f_pos(x)).max() > 1e-5:
            out.append(("position-detached", f"row {i} has uid {x} but position {m.pos[i].tolist()} (expected {_f_pos(x).tolist()})"))
            break
        d = (Rotation.from_rotvec(_f_rotvec(x)).inv() * m.rotator[i]).magnitude()
        if d > 1e-5:
            out.append(("orientation-detached", f"row {i} has uid {x} but its orientation is {d:.3g} rad from that molecule's"))
            break
    cols = f.columns
    exp = {"k": K, "k2": K2, "s": S, "b": B}
    for c, table in exp.items():
        if c in cols and f[c].to_list() != [table[x] for x in u]:
            out.append(("feature-detached", f"column {c} = {f[c].to_list()} for uids {u}"))
    for c, fac in (("f32", 0.5), ("f64", 1.25), ("w", 2)):
        if c in cols:
            got = f[c].to_list()
            if any(g is None or abs(g - fac * x) > 1e-6 for g, x in zip(got, u)):
                out.append(("feature-detached", f"column {c} = {got} for uids {u}"))
    want_dtypes = {"uid": "Int64", "k": "Int64", "k2": "Int64", "f32": "Float32", "f64": "Float64", "s": "String", "b": "Boolean"}
    for c, t in want_dtypes.items():
        if c in cols and str(f[c].dtype) != t:
            out.append(("dtype-changed", f"column {c} has dtype {f[c].dtype}, expected {t}"))
    return out


def digest(m):
    return (m.pos.tobytes(), m.quaternion().tobytes() if m.count() else b"", str(m.features.to_dict(as_series=False)), tuple(map(str, m.features.dtypes)))


def _ops(tier):
    import polars as pl

    from acryo import Molecules

    other_uids = [10] if tier == "quick" else [10, 11]
    ops = []

    def add(name, fn, model, enabled=lambda u, sch: True, mutating=False, may_raise=False):
        ops.append({"name": name, "fn": fn, "model": model, "enabled": enabled, "mutating": mutating, "may_raise": may_raise})

    seq = lambda f: (lambda u: ("seq", tuple(f(list(u)))))  # noqa
    add("subset(0)", lambda m: m.subset(0), seq(lambda u: u[:1]), lambda u, s: len(u) >= 1)
    add("subset(last)", lambda m: m.subset(m.count() - 1), seq(lambda u: u[-1:]), lambda u, s: len(u) >= 1)
    add("subset(1:3)", lambda m: m.subset(slice(1, 3)), seq(lambda u: u[1:3]))
    add("subset(::2)", lambda m: m.subset(slice(None, None, 2)), seq(lambda u: u[::2]))
    add("subset(::-1)", lambda m: m.subset(slice(None, None, -1)), seq(lambda u: u[::-1]))
    add("subset(::-2)", lambda m: m.subset(slice(None, None, -2)), seq(lambda u: u[::-2]))
    add("subset(::-3)", lambda m: m.subset(slice(None, None, -3)), seq(lambda u: u[::-3]))
    add("subset(-1:0:-2)", lambda m: m.subset(slice(-1, 0, -2)), seq(lambda u: u[-1:0:-2]))
    add("subset(2::-1)", lambda m: m.subset(slice(2, None, -1)), seq(lambda u: u[2::-1]))
    add("subset(1::3)", lambda m: m.subset(slice(1, None, 3)), seq(lambda u: u[1::3]))
    add("subset([last,0])", lambda m: m.subset([m.count() - 1, 0]), seq(lambda u: [u[-1], u[0]]), lambda u, s: len(u) >= 2)
    add("subset(int-array)", lambda m: m.subset(np.array([1, 0])), seq(lambda u: [u[1], u[0]]), lambda u, s: len(u) >= 2)
    add("subset(bool-array)", lambda m: m.subset(np.arange(m.count()) % 2 == 0), seq(lambda u: u[::2]))
    add("subset(bool-Series)", lambda m: m.subset(pl.Series([i % 2 == 0 for i in range(m.count())])), seq(lambda u: u[::2]), lambda u, s: len(u) >= 1, may_raise=True)
    add("getitem(1:)", lambda m: m[1:], seq(lambda u: u[1:]))
    add("filter(k>=2)", lambda m: m.filter(pl.col("k") >= 2), seq(lambda u: [x for x in u if K[x] >= 2]), lambda u, s: len(u) >= 1)
    add("filter(s-not-null)", lambda m: m.filter(pl.col("s").is_not_null()), seq(lambda u: [x for x in u if S[x] is not None]), lambda u, s: len(u) >= 1)
    add("filter(bool-list)", lambda m: m.filter([i % 2 == 1 for i in range(m.count())]), seq(lambda u: u[1::2]), lambda u, s: len(u) >= 1)
    add("filter(Series)", lambda m: m.filter(pl.Series([i != 0 for i in range(m.count())])), seq(lambda u: u[1:]), lambda u, s: len(u) >= 1)
    add("sort(k)", lambda m: m.sort("k"), seq(lambda u: sorted(u, key=lambda x: K[x])), lambda u, s: len(u) >= 1)
    add("sort(k,desc)", lambda m: m.sort("k", descending=True), seq(lambda u: sorted(u, key=lambda x: -K[x])), lambda u, s: len(u) >= 1)
    add("sort(k2)", lambda m: m.sort("k2"), lambda u: ("sorted-by", K2, tuple(u)), lambda u, s: len(u) >= 1)
    add("sort(k2,k)", lambda m: m.sort("k2", "k"), seq(lambda u: sorted(u, key=lambda x: (K2[x], K[x]))), lambda u, s: len(u) >= 1 and len(set(u)) == len(u))
    for n in (0, 1, 2, 9):  # none, one, some, more than there are
        add(f"head({n})", lambda m, n=n: m.head(n), seq(lambda u, n=n: u[:n]))
        add(f"tail({n})", lambda m, n=n: m.tail(n), seq(lambda u, n=n: u[len(u) - n:] if n < len(u) else u))
    for seed in (0, 1):
        add(f"sample(2,{seed})", lambda m, seed=seed: m.sample(2, seed=seed), lambda u: ("subset", 2, tuple(u)), lambda u, s: len(u) >= 2)
    add("copy", lambda m: m.copy(), seq(lambda u: u))
    add("dataframe-roundtrip", lambda m: Molecules.from_dataframe(m.to_dataframe()), seq(lambda u: u), lambda u, s: len(u) >= 1)
    add("group_by(k2)->concat", lambda m: Molecules.concat([g for _, g in m.group_by("k2")]), lambda u: ("grouped-by", K2, tuple(u)), lambda u, s: len(u) >= 1)
    add("cutby(k)->concat", lambda m: Molecules.concat([g for _, g in m.cutby("k", [1.5, 3.5])]), lambda u: ("grouped-by", {x: (0 if K[x] <= 1.5 else (1 if K[x] <= 3.5 else 2)) for x in K}, tuple(u)), lambda u, s: len(u) >= 1)
    add("with_features(w)", lambda m: m.with_features((pl.col("uid") * 2).alias("w")), seq(lambda u: u), lambda u, s: len(u) >= 1 and "w" not in s)
    add("drop_features(f64)", lambda m: m.drop_features("f64"), seq(lambda u: u), lambda u, s: "f64" in s)
    grow = lambda u, s: len(u) >= 1 and 10 not in u and tuple(s) == BASE_SCHEMA  # noqa
    add("concat([self,other])", lambda m: Molecules.concat([m, make(other_uids)]), seq(lambda u: u + other_uids), grow)
    add("concat([other,self])", lambda m: Molecules.concat([make(other_uids), m]), seq(lambda u: other_uids + u), grow)
    add("concat_with(other)", lambda m: m.concat_with(make(other_uids)), seq(lambda u: u + other_uids), grow)
    add("append(other)", lambda m: m.append(make(other_uids)), seq(lambda u: u + other_uids), grow, mutating=True)
    return ops


def model_accepts(spec, got):
    kind = spec[0]
    got = tuple(got)
    if kind == "seq":
        return got == tuple(spec[1])
    if kind == "subset":
        _, n, pool = spec
        pool = list(pool)
        if len(got) != n:
            return False
        for g in got:
            if g in pool:
                pool.remove(g)
            else:
                return False
        return True
    if kind == "sorted-by":
        _, key, pool = spec
        return sorted(got) == sorted(pool) and all(key[a] <= key[b] for a, b in zip(got, got[1:]))
    if kind == "grouped-by":
        _, key, pool = spec
        if sorted(got) != sorted(pool):
            return False
        # rows of one group are contiguous and keep their relative order
        seen = []
        for g in got:
            if not seen or seen[-1] != key[g]:
                if key[g] in seen:
                    return False
                seen.append(key[g])
        for kv in set(key[g] for g in got):
            if [g for g in got if key[g] == kv] != [g for g in pool if key[g] == kv]:
                return False
        return True
    raise KeyError(kind)


def invalid_probes(m):
    """inputs that must be rejected; returns list of (name, callable)"""
    import polars as pl

    from acryo import Molecules

    n = m.count()
    probes = [
        ("features-length-mismatch", lambda: Molecules(m.pos, m.rotator, features={"uid": list(range(n + 1))})),
        ("rotation-length-mismatch", lambda: Molecules(np.zeros((n + 1, 3)), m.rotator)),
        ("feature-named-z->dataframe", lambda: m.with_features(pl.lit(1.0).alias("z")).to_dataframe()),
        ("feature-named-zvec->dataframe", lambda: m.with_features(pl.lit(1.0).alias("zvec")).to_dataframe()),
        ("append-extra-columns", lambda: m.copy().append(make([10], extra_cols=("extra",)))),
        ("subset(-1)", lambda: m.subset(-1)),
        ("subset(out-of-range)", lambda: m.subset(n)),
        ("setter-length-mismatch", lambda: setattr(m.copy(), "features", {"q": list(range(n + 2))})),
    ]
    return probes


def explore(tier, report):
    from vf.core import acryo_frame

    ops = _ops(tier)
    nbase = 3 if tier == "quick" else 4
    cap = 4 if tier == "quick" else 6
    seen = {}
    frontier = collections.deque()
    ntrans = 0
    nprobe = 0
    maxdepth = 0
    samples = []

    def viol(sig, msg, case):
        report.violations.append((sig, msg, case))

    for k in range(0, nbase + 1):
        u = tuple(range(k))
        m = make(u)
        seen[(u, schema_of(m))] = []
        frontier.append((m, u, []))
    while frontier:
        m, u, hist = frontier.popleft()
        for kind, msg in check_rows(m):
            viol(f"{ID}|state|{kind}", f"after {hist}: {msg}", {"engine": "E2", "history": hist, "tier": tier})
        if u and len(hist) <= 1:
            for pname, probe in invalid_probes(m):
                before = digest(m)
                nprobe += 1
                try:
                    probe()
                    viol(f"{ID}|invalid-input-accepted|{pname}", f"state {u} (history {hist}): {pname} did not raise", {"engine": "E2", "history": hist, "probe": pname, "tier": tier})
                except (ValueError, TypeError, IndexError, Exception) as e:  # noqa
                    if type(e).__name__ not in ("ValueError", "TypeError", "IndexError", "ShapeError", "DuplicateError", "InvalidOperationError", "ComputeError", "SchemaError", "ColumnNotFoundError"):
                        viol(f"{ID}|invalid-input-wrong-exception|{pname}", f"{pname} raised {type(e).__name__}: {e}", {"engine": "E2", "history": hist, "probe": pname, "tier": tier})
                if digest(m) != before:
                    viol(f"{ID}|invalid-input-modified-receiver|{pname}", f"state {u}: receiver changed although {pname} was rejected", {"engine": "E2", "history": hist, "probe": pname, "tier": tier})
        sch = schema_of(m)
        if u and len(hist) <= 1 and tuple(sch) == BASE_SCHEMA:
            # the accumulator idiom: tables appended to / concatenated with others must stay what they were
            from acryo import Molecules as _M

            for pname, build in (("empty.append(a).append(b)", lambda a, b: _M.empty().append(a).append(b)),
                                 ("empty.concat_with(a).append(b)", lambda a, b: _M.empty().concat_with(a).append(b)),
                                 ("a.copy().append(b).append(b2)", lambda a, b: a.copy().append(b).append(make([11]))),
                                 ("concat([a]).append(b)", lambda a, b: _M.concat([a]).append(b)),
                                 ("a[:].append(b)", lambda a, b: a.subset(slice(None)).append(b))):
                a, b = make(u), make([10])
                da_, db_ = digest(a), digest(b)
                nprobe += 1
                case = {"engine": "E2", "history": hist, "probe": pname, "tier": tier}
                try:
                    acc = build(a, b)
                except Exception as e:  # noqa
                    viol(f"{ID}|accumulate|{pname}|raised-{type(e).__name__}", f"a = uids {u}, b = uid 10: {type(e).__name__}: {e}", case)
                    continue
                if digest(a) != da_ or digest(b) != db_:
                    which = "a" if digest(a) != da_ else "b"
                    t = a if which == "a" else b
                    viol(f"{ID}|accumulate|{pname}|operand-altered", f"a = uids {u}, b = uid 10: operand {which} changed: {[msg for _, msg in check_rows(t)][:1] or 'content changed'}", case)
                want = tuple(u) + (10,) + ((11,) if "b2" in pname else ())
                if uids_of(acc) != want or check_rows(acc):
                    viol(f"{ID}|accumulate|{pname}|wrong-rows", f"a = uids {u}: result holds {uids_of(acc)}, expected {want}; {check_rows(acc)[:1]}", case)
        for op in ops:
            if not op["enabled"](list(u), sch):
                continue
            name = op["name"]
            case = {"engine": "E2", "history": hist + [name], "tier": tier}
            src = m.copy() if op["mutating"] else m
            before = digest(src)
            before_m = digest(m)
            try:
                new = op["fn"](src)
            except Exception as e:  # noqa
                if op["may_raise"]:
                    continue
                viol(f"{ID}|transition|{name.split('(')[0]}|raised-{type(e).__name__}", f"{name} on uids {u} (history {hist}) raised {type(e).__name__}: {e} at {acryo_frame(e.__traceback__)}", case)
                continue
            ntrans += 1
            if not op["mutating"] and digest(src) != before:
                viol(f"{ID}|transition|{name.split('(')[0]}|source-modified", f"{name} on uids {u} modified its input", case)
            if not op["mutating"] and new.count() > 0:
                # aliasing: in-place operations on the result must not reach the table it was derived from
                for iname, inplace in (("translate(copy=False)", lambda x: x.translate([10.0, -20.0, 30.0], copy=False)),
                                       ("rotate_by_rotvec(copy=False)", lambda x: x.rotate_by_rotvec(np.array([[0.2, 0.1, -0.3]] * x.count()), copy=False))):
                    probe = op["fn"](src)
                    try:
                        inplace(probe)
                    except Exception as e:  # noqa
                        viol(f"{ID}|transition|{name.split('(')[0]}|result-not-usable|{iname.split('(')[0]}",
                             f"{iname} on the result of {name} (uids {u}) raised {type(e).__name__}: {e}", {**case, "then": iname})
                    if digest(src) != before:
                        viol(f"{ID}|transition|{name.split('(')[0]}|source-altered-through-result|{iname.split('(')[0]}",
                             f"{iname} on the result of {name} (uids {u}) altered the table it was derived from", {**case, "then": iname})
                        src = make(u) if tuple(sch) == BASE_SCHEMA else src
                        before = digest(src)
            if op["mutating"] and new is not src:
                viol(f"{ID}|transition|{name.split('(')[0]}|mutating-op-returned-new-object", name, case)
            if op["mutating"] and digest(m) != before_m:
                viol(f"{ID}|transition|{name.split('(')[0]}|original-altered-through-copy", f"{name} on a copy() of the table with uids {u} (history {hist}) altered the original: {[msg for _, msg in check_rows(m)][:1] or 'content changed'}", case)
                m = make(u) if tuple(sch) == BASE_SCHEMA else m
            got = uids_of(new)
            spec = op["model"](list(u))
            if not model_accepts(spec, got):
                viol(f"{ID}|transition|{name.split('(')[0]}|wrong-rows", f"{name} on uids {u} (history {hist}) gave uids {got}; reference model: {spec[0]} {spec[1] if spec[0] == 'seq' else ''}", case)
                continue
            rows = check_rows(new)
            for kind, msg in rows:
                viol(f"{ID}|transition|{name.split('(')[0]}|{kind}", f"{name} on uids {u} (history {hist}): {msg}", case)
            key = (got, schema_of(new))
            if key not in seen and not rows:
                seen[key] = hist + [name]
                maxdepth = max(maxdepth, len(hist) + 1)
                if len(samples) < 6 and len(hist) >= 2:
                    samples.append({"history": hist + [name], "uids": list(got), "schema": list(schema_of(new))})
                if len(got) <= cap:
                    frontier.append((new, got, hist + [name]))
    return {"states": len(seen), "transitions": ntrans, "invalid_input_probes": nprobe, "max_depth": maxdepth, "samples": samples}


def cases(tier, seed):
    return []


def run_case(case):
    return replay_case(case)


def replay_case(case):
    if "featureless" in case:
        from vf.core import Report

        rep = Report(ID, LEVEL, case.get("tier", "quick"), 0)
        featureless(case.get("tier", "quick"), rep)
        return {"nontrivial": True, "outcome": "replay", "viol": [(s_, m_) for s_, m_, _ in rep.violations]}
    if "same_object" in case:
        from vf.core import Report

        rep = Report(ID, LEVEL, case.get("tier", "quick"), 0)
        same_object(case.get("tier", "quick"), rep)
        return {"nontrivial": True, "outcome": "replay", "viol": [(s_, m_) for s_, m_, _ in rep.violations]}
    tier = case.get("tier", "quick")
    ops = {o["name"]: o for o in _ops(tier)}
    hist = case["history"]
    # initial table: the smallest base table on which the first operation is enabled is not recorded; replay from every base table
    viol = []
    for k in range(0, 5):
        m = make(range(k))
        ok = True
        for name in hist:
            op = ops[name]
            u = uids_of(m)
            if not op["enabled"](list(u), schema_of(m)):
                ok = False
                break
            src = m.copy() if op["mutating"] else m
            before = digest(src)
            before_m = digest(m)
            try:
                new = op["fn"](src)
            except Exception as e:  # noqa
                viol.append((f"{ID}|transition|{name.split('(')[0]}|raised-{type(e).__name__}", f"base {k}: {e}"))
                ok = False
                break
            if not op["mutating"] and digest(src) != before:
                viol.append((f"{ID}|transition|{name.split('(')[0]}|source-modified", f"base {k}"))
            if not model_accepts(op["model"](list(u)), uids_of(new)):
                viol.append((f"{ID}|transition|{name.split('(')[0]}|wrong-rows", f"base {k}: {u} -> {uids_of(new)}"))
            for kind, msg in check_rows(new):
                viol.append((f"{ID}|transition|{name.split('(')[0]}|{kind}", f"base {k}: {msg}"))
            m = new
    return {"nontrivial": True, "outcome": "replay", "viol": list(dict(viol).items())}


def same_object(tier, report):
    """Histories on ONE object that mix read-only table operations with in-place updates (copy=False rotations and
    translations, append, features =).  Oracle: the last read-only operation gives what it gives on an object built by applying
    only the updates, functionally (copy=True / concat_with), to a fresh table - i.e. read-only operations leave no trace
    and an in-place update is the same update as its functional twin."""
    import polars as pl

    R = [("to_dataframe", lambda m: m.to_dataframe().to_dict(as_series=False)), ("head(2)", lambda m: digest(m.head(2))), ("tail(1)", lambda m: digest(m.tail(1))),
         ("sort(k)", lambda m: digest(m.sort("k"))), ("filter(b)", lambda m: digest(m.filter(pl.col("k") >= 1))), ("group_by(k2)", lambda m: [(str(k), digest(g)) for k, g in m.group_by("k2")]),
         ("sample(2)", lambda m: digest(m.sample(min(2, m.count()), seed=0))), ("subset([1,0])", lambda m: digest(m.subset([1, 0]))), ("digest", lambda m: digest(m)),
         ("axes", lambda m: [np.round(m.z, 5).tolist(), np.round(m.y, 5).tolist(), np.round(m.x, 5).tolist()])]
    v = np.array([0.2, -0.1, 0.3])
    q = np.array([0.0, 0.3826834, 0.0, 0.9238795])
    G = [("translate", lambda m, c: m.translate([1.0, -2.0, 3.0], copy=c)), ("translate_internal", lambda m, c: m.translate_internal([0.5, 0.0, -1.0], copy=c)),
         ("rotate_by_rotvec", lambda m, c: m.rotate_by_rotvec(np.tile(v, (m.count(), 1)), copy=c)), ("rotate_by_rotvec_internal", lambda m, c: m.rotate_by_rotvec_internal(np.tile(v, (m.count(), 1)), copy=c)),
         ("rotate_by_quaternion", lambda m, c: m.rotate_by_quaternion(np.tile(q, (m.count(), 1)), copy=c)), ("rotate_by_matrix", lambda m, c: m.rotate_by_matrix(np.array([[0.0, -1.0, 0.0], [1.0, 0.0, 0.0], [0.0, 0.0, 1.0]]), copy=c)),
         ("append", lambda m, c: m.append(make([10])) if not c else m.concat_with(make([10])))]
    names = [n for n, _ in R] + [n for n, _ in G]
    fR, fG = dict(R), dict(G)
    depth = 3 if tier == "quick" else 4
    nseq = ncall = 0
    seen = set()
    for u in ((0, 1, 2), (3, 1)):
        for d in range(2, depth + 1):
            for pre in itertools.product(names, repeat=d - 1):
                if not any(n in fG for n in pre):
                    continue  # pure read-only prefixes are the BFS's business
                for last, flast in R:
                    m = make(u)
                    ref = make(u)
                    try:
                        for n in pre:
                            if n in fG:
                                fG[n](m, False)
                                ref = fG[n](ref, True)
                            else:
                                fR[n](m)
                            ncall += 1
                        got, want = flast(m), flast(ref)
                        ncall += 1
                    except Exception as e:  # noqa
                        sg = f"{ID}|same-object|raised-{type(e).__name__}|{last.split('(')[0]}"
                        if sg not in seen:
                            seen.add(sg)
                            report.violations.append((sg, f"uids {u}: {list(pre) + [last]} on one object raised {type(e).__name__}: {e}", {"engine": "E2", "same_object": list(pre) + [last], "uids": list(u), "tier": tier}))
                        continue
                    nseq += 1
                    if repr(got) != repr(want):
                        upd = [n for n in pre if n in fG][-1]
                        sg = f"{ID}|same-object|{last.split('(')[0]}-after-in-place-{upd}"
                        if sg not in seen:
                            seen.add(sg)
                            report.violations.append((sg, f"uids {u}: after {list(pre)} on one object, {last} differs from the same table built functionally (the in-place update is not seen by the table operation, or a read-only operation left a trace)", {"engine": "E2", "same_object": list(pre) + [last], "uids": list(u), "tier": tier}))
    return nseq, ncall


def featureless(tier, report):
    """Tables WITHOUT features (fresh picks, from_axes results) in concat / concat_with / append, next to featured and empty
    ones.  Rows are identified by their positions (unique per uid).  Oracle: the result holds the rows of the operands in
    order; rows of a feature-less operand carry nulls in every feature column; the three containers agree in length; operands
    other than the receiver of append are left alone.  append of a table with columns the receiver lacks must be rejected and
    leave the receiver alone."""
    import polars as pl
    from scipy.spatial.transform import Rotation

    from acryo import Molecules

    def bare(uids):
        uids = list(uids)
        if not uids:
            return Molecules.empty()
        return Molecules(np.array([_f_pos(u) for u in uids], dtype=np.float32), Rotation.from_rotvec(np.array([_f_rotvec(u) for u in uids])))

    # "G": the same columns, but k is Float64 with fractional values (the same feature inferred as integer from one file and
    # as float from another): rejecting the combination is fine, truncating the values is not
    parts = {"featured(0,1)": ("F", (0, 1)), "featured(2)": ("F", (2,)), "bare(3)": ("B", (3,)), "bare(10,11)": ("B", (10, 11)), "empty": ("B", ()), "featured-empty": ("F", ()),
             "featured-float-k(3,10)": ("G", (3, 10))}

    def build(spec):
        if spec[0] == "B":
            return bare(spec[1])
        m = make(spec[1])
        if spec[0] == "G":
            m = m.with_features((pl.col("k").cast(pl.Float64) + 0.5).alias("k"))
        return m

    names = list(parts)
    combos = list(itertools.permutations(names, 2)) + ([c for c in itertools.permutations(names, 3)] if tier == "thorough" else
                                                       [("featured(0,1)", "bare(3)", "featured(2)"), ("bare(3)", "featured(0,1)", "bare(10,11)"), ("bare(3)", "empty", "featured(2)"), ("featured(0,1)", "featured-float-k(3,10)", "featured(2)"), ("featured-float-k(3,10)", "featured(2)", "bare(10,11)")])
    opsx = [("concat", lambda ms: Molecules.concat(ms)), ("concat_with", lambda ms: _fold(ms, lambda a, b: a.concat_with(b))), ("append", lambda ms: _fold([ms[0].copy()] + list(ms[1:]), lambda a, b: a.append(b)))]
    n = 0
    for combo in combos:
        for oname, fn in opsx:
            ms = [build(parts[c]) for c in combo]
            before = [digest(m) for m in ms]
            case = {"engine": "E2", "featureless": [oname] + list(combo), "tier": tier}
            want_u = [u for c in combo for u in parts[c][1]]
            kinds = [parts[c][0] for c in combo for _ in parts[c][1]]
            # append: a receiver with rows but without the columns of the appended table must reject it
            must_raise = may_raise = False
            if oname == "append":
                # a receiver without rows takes over the table appended to it (its own schema is not binding); a receiver
                # with rows rejects columns it lacks, even when the appended table has no rows
                k0, u0 = parts[combo[0]]
                have_rows, have_cols = bool(u0), k0 in "FG"
                for c in combo[1:]:
                    k, u = parts[c]
                    if not have_rows:
                        have_cols = k in "FG"
                    elif k in "FG" and not have_cols:
                        may_raise = True
                        must_raise = must_raise or bool(u)
                    have_rows = have_rows or bool(u)
            if {"F", "G"} <= {parts[c][0] for c in combo}:
                may_raise = True  # one column, two dtypes: a schema error is a rejection
            n += 1
            try:
                r = fn(ms)
            except Exception as e:  # noqa
                if not (must_raise or may_raise):
                    report.violations.append((f"{ID}|featureless|{oname}|raised-{type(e).__name__}", f"{oname} of {list(combo)} raised {type(e).__name__}: {str(e)[:160]}", case))
                elif [digest(m) for m in ms] != before:
                    report.violations.append((f"{ID}|featureless|{oname}|operand-altered-by-rejected-call", f"{oname} of {list(combo)}", case))
                continue
            if must_raise:
                report.violations.append((f"{ID}|invalid-input-accepted|append-extra-columns-onto-bare", f"append of {list(combo)} did not raise; result: {r.count()} molecules, features {r.features.shape}", case))
                continue
            if [digest(m) for m in ms] != before:
                report.violations.append((f"{ID}|featureless|{oname}|operand-altered", f"{oname} of {list(combo)} changed an operand", case))
            f = r.features
            nrow = r.count()
            any_feat = any(k in "FG" for k in kinds)
            if nrow != len(want_u) or r.pos.shape != (nrow, 3) or (nrow and len(r.rotator) != nrow) or (f.width > 0 and f.height != nrow) or (any_feat and f.width == 0):
                report.violations.append((f"{ID}|featureless|{oname}|length-mismatch", f"{oname} of {list(combo)}: {r.pos.shape[0]} positions, features {f.shape}, expected {len(want_u)} rows", case))
                continue
            bad = None
            for i, (u, k) in enumerate(zip(want_u, kinds)):
                if np.abs(r.pos[i] - _f_pos(u)).max() > 1e-5 or (Rotation.from_rotvec(_f_rotvec(u)).inv() * r.rotator[i]).magnitude() > 1e-5:
                    bad = f"row {i} is not molecule {u}"
                    break
                if f.width:
                    row = f.row(i, named=True)
                    if k in "FG" and (row.get("uid") != u or row.get("k") != K[u] + (0.5 if k == "G" else 0) or row.get("s") != S[u] or row.get("b") != B[u]):
                        bad = f"row {i} (molecule {u}) carries features {row}"
                        break
                    if k == "B" and any(v is not None for v in row.values()):
                        bad = f"row {i} (feature-less molecule {u}) carries features {row}"
                        break
            if bad:
                report.violations.append((f"{ID}|featureless|{oname}|wrong-rows", f"{oname} of {list(combo)}: {bad}", case))
    return n


def _fold(ms, f):
    acc = ms[0]
    for m in ms[1:]:
        acc = f(acc, m)
    return acc


def null_keys(tier, report):
    """Grouping / binning by a feature that holds nulls or NaNs (scores of molecules that were not aligned, joined tables):
    cutby, group_by and filter either reject the input loudly or return a partition / the exact selection - molecules
    are never dropped silently (wave 10 seed C12j)."""
    import polars as pl

    n = 0
    uids = (0, 1, 2, 3, 10, 11)
    for kind in ("null", "nan", "null+nan", "all-null"):
        for where in ((1,), (0, 5), (2, 3, 4)):
            vals = [0.5 + i for i in range(len(uids))]
            for j, w in enumerate(where if kind != "all-null" else range(len(uids))):
                vals[w] = None if kind in ("null", "all-null") or (kind == "null+nan" and j % 2 == 0) else float("nan")
            m = make(uids).with_features(pl.Series("score", vals, dtype=pl.Float64))
            case = {"engine": "E1", "family": "null-keys", "kind": kind, "where": list(where)}
            probes = {
                "cutby(2 bins)": lambda: [g for _, g in m.cutby("score", [0.0, 3.0, 10.0])],
                "cutby(3 bins)": lambda: [g for _, g in m.cutby("score", [0.0, 2.0, 4.0, 10.0])],
                "group_by(score)": lambda: [g for _, g in m.group_by("score")],
                "group_by(k, score)": lambda: [g for _, g in m.group_by(["k", "score"])],
            }
            for pname, fn in probes.items():
                n += 1
                try:
                    groups = fn()
                except Exception:
                    continue  # rejected loudly: nothing was returned
                got = sorted(u for g in groups for u in uids_of(g))
                if got != sorted(uids):
                    report.violations.append((f"{ID}|null-keys|{pname}|not-a-partition", f"score with {kind} at rows {list(where)}: groups hold uids {got}, input {list(uids)}", case))
                for g in groups:
                    bad = check_rows(g)
                    if bad:
                        report.violations.append((f"{ID}|null-keys|{pname}|rows", f"score with {kind}: {bad}", case))
                        break
    # selections that keep nothing still carry the feature columns and dtypes of their source (wave 10 seed C13j)
    src = make(uids)
    want = [(c, str(t)) for c, t in src.features.schema.items()]
    empties = {
        "filter(uid<0)": lambda: src.filter(pl.col("uid") < 0),
        "subset([])": lambda: src.subset([]),
        "subset(slice(0,0))": lambda: src.subset(slice(0, 0)),
        "head(0)": lambda: src.head(0),
        "filter->filter": lambda: src.filter(pl.col("k") >= 2).filter(pl.col("uid") < 0),
        "filter->sort": lambda: src.filter(pl.col("uid") < 0).sort("k"),
        "filter->copy": lambda: src.filter(pl.col("uid") < 0).copy(),
        "filter->concat-with-source": lambda: src.filter(pl.col("uid") < 0).concat_with(src).filter(pl.col("uid") < 0),
    }
    for pname, fn in empties.items():
        n += 1
        case = {"engine": "E1", "family": "empty-selection", "probe": pname}
        try:
            e = fn()
        except Exception as exc:  # an empty selection is a legal result
            report.violations.append((f"{ID}|empty-selection|{pname}|raised", f"{type(exc).__name__}: {exc}", case))
            continue
        got = [(c, str(t)) for c, t in e.features.schema.items()]
        if e.count() != 0 or got != want:
            report.violations.append((f"{ID}|empty-selection|{pname}|schema", f"{e.count()} rows, feature schema {got}; the source has {want}", case))
    return n


def extra(tier, seed, report):
    st = explore(tier, report)
    report.cov["null_key_probes"] = null_keys(tier, report)
    nseq, ncall = same_object(tier, report)
    report.cov["featureless_combinations"] = featureless(tier, report)
    report.cov["same_object_sequences"] = nseq
    report.cov["same_object_calls"] = ncall
    report.cov["states"] = st["states"]
    report.cov["transitions"] = st["transitions"]
    report.cov["traces_validated_against_impl"] = st["states"]
    report.cov["invalid_input_probes"] = st["invalid_input_probes"]
    report.cov["max_depth"] = st["max_depth"]
    report.cov["alphabet"] = [o["name"] for o in _ops(tier)]
    report.cov["explanation"] = "transitions are executed on the real Molecules objects; every reached state is validated row by row (traces_validated = states)"
    report.samples = st["samples"] or [{"history": ["sort(k)"], "uids": [1, 0, 2]}]
    report.evaluations = st["transitions"]
    report.nontrivial = set(range(max(2, st["states"])))
