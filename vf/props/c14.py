"""C14 -- simulated tomograms contain the template at the requested poses.

E1 + E5: template shape x pose class x rotation x scale x order, with
 (a) exact paste on every basis-impulse template (the exact operator) at grid-coincident
     poses, identity and cube rotations;
 (b) additivity over every set partition of three molecules into components and every
     ordering of components and molecules;
 (c) clipping: simulation in the volume == crop of the simulation in a padded volume;
 (d) read-back through SubtomogramLoader;
 (e) simulate_2d == z-projection of simulate.
"""
from __future__ import annotations

import itertools

import numpy as np

from vf import data

ID = "C14"
LEVEL = "exploration"
DESIGN_REF = "DESIGN.md section 3, C14"
RULE = (
    "families: paste (template shape x rotation x scale x order x grid-coincident pose, all basis impulses), additivity "
    "(all 5 set partitions of 3 molecules x all orderings), clipping (template shape x per-axis pose class incl. straddling / touching / outside "
    "x rotation x order), readback (template shape x pose class x rotation x scale x order), projection (layouts x template shape x order); "
    "non-trivial = more than one molecule, a rotation, a non-unit scale or a non-interior pose"
)
ASSUMPTIONS = [
    "volume (16,17,18); template shapes 3^3, 4^3, 5^3, (3,4,5), (4,4,3)",
    "exact-paste cases: identity for every template shape, cube rotations for cubic templates, position integer (odd size) / half-integer (even size) per axis",
    "read-back accuracy 3% of the peak for analytic particles that vanish 2 px inside their box (statement's assumption), exact in the exact-paste case",
    "added during the seeding waves: template dtypes, call histories with mutators (overwrite / add a component), simulate_projection and tilt series at zero tilt, simulate_2d at scales 0.25 / 0.5 / 2.5 with molecules down to z = 52 px",
]

VOL = (16, 17, 18)
RVOL = (24, 25, 26)  # read-back family (larger templates)
TSHAPES = [(3, 3, 3), (4, 4, 4), (5, 5, 5), (3, 4, 5), (4, 4, 3)]
CUBES = ["cube0", "cube5", "cube9", "cube14", "cube17", "cube23"]


def AXES(tier):
    return {"template_shape": TSHAPES, "rotation": CUBES + ["gen0"], "scale": [1.0, 0.5, 2.5], "order": [0, 1, 3],
            "pose_class": ["interior-grid", "interior-half", "7.3", "straddle-low", "straddle-high", "touching", "outside"], "partitions": 5}


def _grid_pos(tshape, base=(7, 8, 9)):
    return np.array([b if n % 2 else b + 0.5 for b, n in zip(base, tshape)], dtype=np.float64)


def cases(tier, seed):
    out = []
    cubes = CUBES if tier == "quick" else [n for n, _ in data.named_rotations(("cube",))]
    for ts in TSHAPES:
        for scale in (1.0, 0.5, 2.5):
            for order in (0, 1, 3):
                rots = cubes if len(set(ts)) == 1 else ["cube0"]
                for rot in rots:
                    for base in ((7, 8, 9), (2, 12, 3)):
                        out.append({"family": "paste", "tshape": list(ts), "rot": rot, "scale": scale, "order": order, "base": list(base)})
    # additivity: every set partition of {0,1,2} and every ordering
    parts = [[[0, 1, 2]], [[0], [1, 2]], [[1], [0, 2]], [[2], [0, 1]], [[0], [1], [2]]]
    for part in parts:
        for comp_order in itertools.permutations(range(len(part))):
            for rev in (False, True):
                for order in (1, 3):
                    for ts in ((4, 4, 4), (3, 4, 5)) if tier == "quick" else TSHAPES:
                        out.append({"family": "additivity", "partition": part, "comp_order": list(comp_order), "reverse_in_comp": rev,
                                    "order": order, "tshape": list(ts), "seed": seed})
    # clipping
    classes = ["interior", "straddle-low", "straddle-high", "touch-low", "touch-high", "outside-low", "outside-high"]
    for ts in TSHAPES + [(7, 7, 7), (8, 7, 6)]:
        for ax in range(3):
            for cl in classes:
                for rot in ("cube0", "gen0"):
                    if rot != "cube0" and min(ts) < 6:
                        continue  # a rotated template must vanish near its box faces (statement); needs a box of >= 6
                    if rot == "cube0" and min(ts) >= 6:
                        continue
                    for order in (0, 1, 3):
                        for scale in (1.0, 2.5) if tier == "quick" else (1.0, 0.5, 2.5):
                            out.append({"family": "clipping", "tshape": list(ts), "axis": ax, "cls": cl, "rot": rot, "order": order, "scale": scale})
    # read-back
    for ts in ((13, 13, 13), (14, 14, 14), (15, 14, 13)):
        for rot in ("cube0", "cube9", "gen0", "gen1"):
            for scale in (1.0, 0.5, 2.5):
                for order in (1, 3):
                    for pc in ("grid", "7.3"):
                        out.append({"family": "readback", "tshape": list(ts), "rot": rot, "scale": scale, "order": order, "pose": pc})
    # projection
    for ts in TSHAPES:
        for order in (0, 1, 3):
            for nmol in (1, 2, 3):
                for rot in ("cube0", "gen0"):
                    out.append({"family": "projection", "tshape": list(ts), "order": order, "nmol": nmol, "rot": rot})
                    # pixel sizes other than 1 nm and molecules deep in the volume (z up to 52 px)
                    for scale, deep in ((0.5, False), (0.5, True), (0.25, True), (2.5, True), (1.0, True)):
                        if rot == "cube0" or tier == "thorough":
                            out.append({"family": "projection", "tshape": list(ts), "order": order, "nmol": nmol, "rot": rot, "scale": scale, "deep": deep})
    # template dtypes (density maps read from integer MRC files, boolean masks): same tomogram as with the float32 template
    for dt in ("float64", "int16", "uint8", "int8", "bool"):
        for order in (0, 1, 3):
            for scale in (1.0, 0.5):
                out.append({"family": "dtype", "dtype": dt, "order": order, "scale": scale})
    # call histories on one simulator: what simulate / replace / copy / subset return must not depend on earlier calls
    for order in (3, 1, 0):
        out.append({"family": "history", "order": order, "depth": 2 if tier == "quick" else 3})
    return out


def _rot(name, n=1):
    from scipy.spatial.transform import Rotation

    return Rotation.from_matrix(np.array([data.rot_matrix(name)] * n))


def run_case(case):
    import dask

    dask.config.set(scheduler="synchronous")
    return {"paste": _paste, "additivity": _additivity, "clipping": _clipping, "readback": _readback, "projection": _projection, "history": _history, "dtype": _dtype}[case["family"]](case)


def _dtype(case):
    from scipy.spatial.transform import Rotation

    from acryo import Molecules

    dt, order, scale = case["dtype"], case["order"], case["scale"]
    base = data.particle_box((7, 7, 7))
    amp = {"float64": 1.0, "int16": 9000.0, "uint8": 250.0, "int8": 120.0, "bool": 1.0}[dt]
    t = (base > 0.35) if dt == "bool" else np.round(base / base.max() * amp).astype(dt) if dt != "float64" else base.astype(np.float64)
    # sub-pixel and rotated poses: interpolated values lie between the integer levels
    mole = Molecules(np.array([[6.3, 7.0, 8.45], [10.0, 9.6, 5.5]]) * scale, Rotation.from_matrix(np.stack([np.eye(3), data.rot_matrix("gen0")])))
    shape = (16, 17, 15)
    out = {}
    for name, tt in (("typed", t), ("float32", np.asarray(t, dtype=np.float32))):
        sim = _sim(order, scale)
        sim.add_molecules(mole, tt)
        out[name] = [np.asarray(sim.simulate(shape), dtype=np.float64), np.asarray(sim.simulate_2d(shape[1:]), dtype=np.float64)]
    viol = []
    for what, a, b in (("simulate", out["typed"][0], out["float32"][0]), ("simulate_2d", out["typed"][1], out["float32"][1])):
        err = np.abs(a - b).max()
        if a.shape != b.shape or err > 2e-4 * max(1.0, np.abs(b).max()):
            viol.append((f"{ID}|dtype|{what}|{'integer' if 'int' in dt else dt}-template|order={order}", f"{dt} template (values up to {float(np.max(t)):.0f}), order {order}, scale {scale}: {what} differs from the float32-template result by {err:.4g} (max {np.abs(b).max():.4g}; mass {a.sum():.5g} vs {b.sum():.5g})"))
    return {"nontrivial": True, "outcome": f"dtype|{dt}|{'viol' if viol else 'ok'}", "viol": viol}


def _history(case):
    from scipy.spatial.transform import Rotation

    from acryo import Molecules, pipe

    from vf import history

    order0 = case["order"]
    shape = (14, 15, 16)
    ta = data.particle_box((5, 5, 5)).astype(np.float32)
    tb_fine = data.particle_box((8, 8, 8), blobs=[(1.0, (0.6, -0.8, 0.4), 1.6), (0.6, (-1.2, 1.0, 0.0), 1.2)]).astype(np.float32)
    rot = Rotation.from_matrix(np.stack([data.rot_matrix("gen0"), data.rot_matrix("cube5")]))

    def make():
        sim = _sim(order0, 1.0)
        sim.add_molecules(Molecules(np.array([[4.0, 5.5, 6.0], [9.5, 8.0, 10.25]]), rot), ta, name="a")
        # a template given as a provider: rendered at the simulator's scale (original scale 0.5 -> zoomed by 1/2 at scale 1)
        sim.add_molecules(Molecules(np.array([[7.0, 10.0, 4.5]])), pipe.from_array(tb_fine, 0.5), name="b")
        return sim

    ops = [
        ("simulate", lambda sim: np.asarray(sim.simulate(shape))),
        ("simulate_2d", lambda sim: np.asarray(sim.simulate_2d(shape[1:]))),
        ("tilt_series", lambda sim: np.asarray(sim.simulate_tilt_series([-30.0, 0.0, 30.0], shape))),
        ("copy.simulate", lambda sim: np.asarray(sim.copy().simulate(shape))),
        ("subset(a).simulate", lambda sim: np.asarray(sim.subset("a").simulate(shape))),
        ("subset(b).simulate", lambda sim: np.asarray(sim.subset(["b"]).simulate(shape))),
        ("replace(scale=0.5).simulate", lambda sim: np.asarray(sim.replace(scale=0.5).simulate(shape))),
        ("replace(scale=2).simulate_2d", lambda sim: np.asarray(sim.replace(scale=2.0).simulate_2d(shape[1:]))),
        ("molecules", lambda sim: [np.asarray(sim.collect_molecules().pos), np.asarray(sim.collect_molecules().quaternion())]),
    ]
    for o in (0, 1, 3):
        ops.append((f"replace(order={o}).simulate", lambda sim, o=o: np.asarray(sim.replace(order=o).simulate(shape))))
    ta2 = data.particle_box((5, 5, 5), blobs=[(1.0, (0.8, -0.6, 0.4), 1.0), (0.7, (-0.9, 0.7, -0.5), 0.8)]).astype(np.float32)
    mutators = [
        # the template of component "a" is replaced (same molecules): later simulations contain the new one
        ("overwrite(a)", lambda sim: sim.add_molecules(sim.components["a"].molecules, ta2, name="a", overwrite=True)),
        ("add(c)", lambda sim: sim.add_molecules(Molecules(np.array([[11.0, 4.0, 12.0]])), ta2, name="c", overwrite=True)),
    ]
    res = history.explore(make, ops, max(case["depth"], 3), atol=1e-5, rtol=1e-5, mutators=mutators,
                          prefixes_only_from={"simulate", "simulate_2d", "tilt_series", "replace(order=1).simulate", "subset(a).simulate"} if case["depth"] < 3 else None)
    viol, seen = [], set()
    for n_ in res["raises_alone"]:
        viol.append((f"{ID}|history|raises-on-a-fresh-simulator|{n_.split('(')[0]}", f"simulator of order {order0}: {n_} raised {res['raises_alone_msg'][n_]}"))
    for hist, why in res["failures"]:
        sg = f"{ID}|history|{hist[-1].split('(')[0]}-after-{hist[-2].split('(')[0]}"
        if sg not in seen:
            seen.add(sg)
            viol.append((sg, f"simulator of order {order0}: {hist[-1]} after {hist[:-1]} differs from the same call on a fresh simulator: {why}"))
    for hist, err in res["errors"]:
        sg = f"{ID}|history|raised"
        if sg not in seen:
            seen.add(sg)
            viol.append((sg, f"{hist} raised {err}"))
    if res["nondeterministic"]:
        viol.append((f"{ID}|history|not-reproducible", f"{res['nondeterministic']} differ between two fresh simulators"))
    return {"nontrivial": True, "outcome": f"history|{'viol' if viol else 'ok'}", "viol": viol,
            "metrics": {"history_sequences": res["sequences"], "history_calls": res["calls"]}}


def _sim(order, scale):
    from acryo import TomogramSimulator

    return TomogramSimulator(order=order, scale=scale)


def _parity(ts):
    return "even" if any(n % 2 == 0 for n in ts) else "odd"


def _paste(case):
    from acryo import Molecules

    ts = tuple(case["tshape"])
    order, scale = case["order"], case["scale"]
    R = data.rot_matrix(case["rot"])
    pos_px = _grid_pos(ts, case["base"])
    mole = Molecules(pos_px[None] * scale, _rot(case["rot"]))
    n = int(np.prod(ts))
    viol = []
    sig = lambda what: f"{ID}|paste|{what}|{_parity(ts)}|{'identity' if case['rot'] == 'cube0' else 'cube-rotation'}"  # noqa
    # where does template voxel k land?  world = pos + R (k - c)
    c = (np.asarray(ts) - 1) / 2
    for j in range(n):
        k = np.array(np.unravel_index(j, ts))
        e = np.zeros(ts, dtype=np.float32)
        e[tuple(k)] = 1.0
        sim = _sim(order, scale)
        sim.add_molecules(mole, e)
        T = np.asarray(sim.simulate(VOL))
        w = pos_px + R @ (k - c)
        wi = np.round(w).astype(int)
        exp = np.zeros(VOL, dtype=np.float32)
        inside = np.all((wi >= 0) & (wi < np.asarray(VOL)))
        if not np.allclose(w, wi, atol=1e-9):
            return {"harness_error": f"pose not grid-coincident: {w}"}
        if inside:
            exp[tuple(wi)] = 1.0
        if T.shape != VOL or np.abs(T - exp).max() > (1e-6 if order < 3 else 1e-4):
            got = np.argwhere(np.abs(T) > 0.1)
            viol.append((sig("operator"), f"template {ts} voxel {k.tolist()} at pos {pos_px.tolist()} px (scale {scale}, order {order}, rot {case['rot']}) should land on voxel {wi.tolist()}; simulated mass {float(T.sum()):.3f} at {got[:3].tolist()}"))
            break
    return {"nontrivial": bool(case["rot"] != "cube0" or scale != 1.0), "outcome": f"paste|{_parity(ts)}|{'viol' if viol else 'ok'}", "viol": viol}


def _three_molecules(ts, seed):
    rng = np.random.default_rng(seed + 5)
    pos = np.array([[6.3, 7.0, 8.5], [9.0, 9.4, 6.1], [7.7, 5.2, 11.0]])
    names = ["gen0", "cube9", "gen1"]
    templates = [rng.random(ts).astype(np.float32) for _ in range(3)]
    return pos, names, templates


def _additivity(case):
    from acryo import Molecules

    ts = tuple(case["tshape"])
    order = case["order"]
    pos, names, templates = _three_molecules(ts, case["seed"])
    tm = templates[0]
    viol = []
    singles = []
    for i in range(3):
        s = _sim(order, 1.0)
        s.add_molecules(Molecules(pos[i][None], _rot(names[i])), tm)
        singles.append(np.asarray(s.simulate(VOL)).astype(np.float64))
    ref = singles[0] + singles[1] + singles[2]
    part = case["partition"]
    sim = _sim(order, 1.0)
    for ci in case["comp_order"]:
        idx = list(part[ci])
        if case["reverse_in_comp"]:
            idx = idx[::-1]
        from scipy.spatial.transform import Rotation

        rot = Rotation.from_matrix(np.array([data.rot_matrix(names[i]) for i in idx]))
        sim.add_molecules(Molecules(pos[idx], rot), tm, name=f"c{ci}")
    T = np.asarray(sim.simulate(VOL)).astype(np.float64)
    err = np.abs(T - ref).max()
    if err > 1e-5 * max(1.0, np.abs(ref).max()):
        viol.append((f"{ID}|additivity|sum-of-singles|components={len(part)}", f"partition {part} order {case['comp_order']} rev={case['reverse_in_comp']}: simulate(all) differs from the sum of single-molecule simulations by {err:.3g} (mass {T.sum():.3f} vs {ref.sum():.3f})"))
    return {"nontrivial": True, "outcome": f"additivity|{len(part)}|{'viol' if viol else 'ok'}", "viol": viol}


def _clipping(case):
    from acryo import Molecules

    ts = tuple(case["tshape"])
    ax, cl, order, scale = case["axis"], case["cls"], case["order"], case["scale"]
    n = VOL[ax]
    h = ts[ax] / 2
    val = {"interior": 7.3, "straddle-low": 0.4, "straddle-high": n - 1.6, "touch-low": -h - 0.5 + 0.001, "touch-high": n - 0.5 + h - 0.001,
           "outside-low": -h - 3.2, "outside-high": n + h + 2.7}[cl]
    p = np.array([7.3, 8.1, 9.6])
    p[ax] = val
    rng = np.random.default_rng(3)
    if case["rot"] == "cube0":
        tm = rng.random(ts).astype(np.float32)
    else:  # compact: vanishes within the inscribed ball minus 1.5 px, so rotation loses nothing at the box faces
        cc = data.box_coords(ts)
        r = np.sqrt((cc**2).sum(-1))
        tm = np.exp(-((cc - np.array([0.3, -0.2, 0.1])) ** 2).sum(-1) / (2 * 0.7**2)).astype(np.float32)
    viol = []
    sig = lambda what: f"{ID}|clipping|{what}|{cl}|{_parity(ts)}"  # noqa
    PADV = 8
    try:
        s1 = _sim(order, scale)
        s1.add_molecules(Molecules(p[None] * scale, _rot(case["rot"])), tm)
        T = np.asarray(s1.simulate(VOL)).astype(np.float64)
    except Exception as e:  # noqa
        from vf.core import acryo_frame

        return {"nontrivial": True, "outcome": "raised", "viol": [(sig(f"raised-{type(e).__name__}"), f"pose {p.tolist()} px raised {type(e).__name__}: {e} at {acryo_frame(e.__traceback__)}")]}
    s2 = _sim(order, scale)
    s2.add_molecules(Molecules((p + PADV)[None] * scale, _rot(case["rot"])), tm)
    big = np.asarray(s2.simulate(tuple(v + 2 * PADV for v in VOL))).astype(np.float64)
    ref = big[PADV:PADV + VOL[0], PADV:PADV + VOL[1], PADV:PADV + VOL[2]]
    if not np.all(np.isfinite(T)):
        viol.append((sig("non-finite"), f"pose {p.tolist()} px"))
    elif np.abs(T - ref).max() > (1e-4 if case["rot"] == "cube0" else 3e-3) * max(1.0, np.abs(big).max()):  # rotated: paste footprints may differ by a voxel; only tails (< 3e-3) live there
        viol.append((sig("differs-from-crop-of-padded-simulation"), f"pose {p.tolist()} px (template {ts}, rot {case['rot']}, order {order}, scale {scale}): max difference {np.abs(T - ref).max():.3g}, mass {T.sum():.4f} vs {ref.sum():.4f}"))
    return {"nontrivial": bool(cl != "interior"), "outcome": f"clipping|{cl}|{'viol' if viol else 'ok'}", "viol": viol}


def _readback(case):
    from acryo import Molecules, SubtomogramLoader

    ts = tuple(case["tshape"])
    order, scale = case["order"], case["scale"]
    blobs = [(a, tuple(0.3 * c for c in cen), 1.2) for a, cen, s in data._BLOBS]  # sigma 1.2 px, offsets <= 0.6 px: below 4 % of the peak 2 px inside the box faces
    tm = data.particle_box(ts, blobs=blobs)
    exact = case["pose"] == "grid" and case["rot"].startswith("cube") and (len(set(ts)) == 1 or case["rot"] == "cube0")
    pos_px = _grid_pos(ts, (11, 12, 12)) if case["pose"] == "grid" else np.array([11.3, 12.6, 12.45])
    mole = Molecules(pos_px[None] * scale, _rot(case["rot"]))
    sim = _sim(order, scale)
    sim.add_molecules(mole, tm)
    T = np.asarray(sim.simulate(RVOL))
    sub = np.asarray(SubtomogramLoader(T, mole, order=order, scale=scale, output_shape=ts).load(0))
    err = float(np.abs(sub - tm).max())
    peak = float(tm.max())
    # "to interpolation accuracy": two cubic interpolations of a sigma = 1.2 px density stay within 5 % (observed <= 3.2 %);
    # two linear interpolations legitimately lose up to ~35 % of the peak (sanity bound 40 %)
    tol = (1e-4 if exact else (0.05 if order == 3 else 0.40)) * peak
    viol = []
    if err > tol:
        viol.append((f"{ID}|readback|template-not-recovered|{'exact' if exact else 'interpolated'}|{_parity(ts)}", f"template {ts} at {pos_px.tolist()} px, rot {case['rot']}, scale {scale}, order {order}: loaded sub-volume differs from the template by {err / peak:.3%} of the peak (tolerance {tol / peak:.3%})"))
    return {"nontrivial": True, "outcome": f"readback|{'exact' if exact else 'interp'}|{'viol' if viol else 'ok'}", "viol": viol, "metrics": {("readback_exact_err" if exact else f"readback_err_order{order}"): err / peak}}


def _projection(case):
    from scipy.spatial.transform import Rotation

    from acryo import Molecules

    ts = tuple(case["tshape"])
    order, nmol = case["order"], case["nmol"]
    rng = np.random.default_rng(9)
    tm = rng.random(ts).astype(np.float32)
    scale, deep = case.get("scale", 1.0), case.get("deep", False)
    pos = np.array([[9.0, 8.3, 7.1], [12.4, 5.0, 11.6], [10.2, 12.7, 4.4]])[:nmol]
    if deep:
        pos = (pos + np.array([[43.0, 0, 0], [20.6, 0, 0], [0.0, 0, 0]])[:nmol])[::-1]
    rot = Rotation.from_matrix(np.array([data.rot_matrix(case["rot"])] * nmol))
    mole = Molecules(pos * scale, rot)
    sim = _sim(order, scale)
    sim.add_molecules(mole, tm)
    zsize = int(np.ceil(pos[:, 0].max() + sum(ts))) + 2
    vol3 = np.asarray(sim.simulate((zsize,) + VOL[1:])).astype(np.float64)
    p2 = np.asarray(sim.simulate_2d(VOL[1:])).astype(np.float64)
    ref = vol3.sum(axis=0)
    viol = []
    if p2.shape != ref.shape or np.abs(p2 - ref).max() > 1e-4 * max(1.0, np.abs(ref).max()):
        viol.append((f"{ID}|projection|not-the-z-projection|nmol={'1' if nmol == 1 else '>1'}" + ("" if not deep and scale == 1.0 else "|deep" if deep else "|scale"), f"{nmol} molecule(s) (z up to {pos[:, 0].max():.1f} px, scale {scale}), template {ts}, order {order}: simulate_2d mass {p2.sum():.3f}, z-projection of simulate mass {ref.sum():.3f}, max difference {np.abs(p2 - ref).max():.3g}"))
    # the coloured simulation pastes the same footprints, normalised to the template's value range and weighted per channel:
    # for a template whose minimum is 0 (orders 0 and 1: no spline coefficients) channel c is colour_c * simulate() / max(template)
    if scale == 1.0 and not deep and order <= 1:
        tm0 = tm.copy()
        tm0.flat[0] = 0.0
        simc = _sim(order, 1.0)
        simc.add_molecules(Molecules(pos * scale, rot, features={"c": np.arange(nmol)}), tm0)  # (a callable colour map reads the feature row)
        plain = np.asarray(simc.simulate((zsize,) + VOL[1:])).astype(np.float64)
        colour = (1.0, 0.5, 0.25)
        try:
            col = np.asarray(simc.simulate((zsize,) + VOL[1:], colormap=lambda df: colour)).astype(np.float64)
            wantc = np.stack([c_ * plain / float(tm0.max()) for c_ in colour], axis=0)
            if col.shape != wantc.shape or np.abs(col - wantc).max() > 1e-5 * max(1.0, np.abs(wantc).max()):
                viol.append((f"{ID}|simulate(colormap)|not-the-weighted-simulation|order={order}", f"{nmol} molecule(s), template {ts}: coloured simulation differs from colour * simulate() / max(template) by {np.abs(col - wantc).max() if col.shape == wantc.shape else col.shape:.3g}"))
        except Exception as e:  # noqa
            viol.append((f"{ID}|simulate(colormap)|raised-{type(e).__name__}|order={order}", str(e)[:200]))
    # simulate_projection with the plane axes (y, x) and the plane centred on the image centre is the same z-projection, and a plane
    # moved by whole pixels moves the picture by whole pixels.  Checked on grid-coincident poses (integer positions, odd
    # template, cube rotations), where every interpolation order is exact and nothing is truncated.
    if all(n % 2 == 1 for n in ts) and scale == 1.0 and not deep:
        H, W = VOL[1:]
        ipos = np.array([[9.0, 8.0, 7.0], [12.0, 5.0, 12.0], [10.0, 13.0, 4.0]])[:nmol]
        irot = Rotation.from_matrix(np.array([data.rot_matrix("cube0" if case["rot"] == "cube0" else "cube5")] * nmol))
        sim2 = _sim(order, 1.0)
        sim2.add_molecules(Molecules(ipos, irot), tm)
        ref2 = np.asarray(sim2.simulate((zsize,) + VOL[1:])).astype(np.float64).sum(axis=0)
        pz = np.asarray(sim2.simulate_projection((H, W), center=(0.0, (H - 1) / 2, (W - 1) / 2), xaxis=(0.0, 0.0, 1.0), yaxis=(0.0, 1.0, 0.0))).astype(np.float64)
        tolp = (1e-5 if order < 3 else 1e-3) * max(1.0, np.abs(ref2).max())
        if pz.shape != ref2.shape or np.abs(pz - ref2).max() > tolp:
            viol.append((f"{ID}|simulate_projection|not-the-z-projection|order={order}", f"{nmol} molecule(s) at integer positions, template {ts}, order {order}: projection along z differs from the z-projection of simulate() by {np.abs(pz - ref2).max():.3g} (mass {pz.sum():.3f} vs {ref2.sum():.3f})"))
        ps = np.asarray(sim2.simulate_projection((H, W), center=(5.0, (H - 1) / 2 + 2.0, (W - 1) / 2 - 3.0), xaxis=(0.0, 0.0, 2.0), yaxis=(0.0, 0.5, 0.0))).astype(np.float64)
        want = np.zeros_like(ref2)
        want[: H - 2, 3:] = ref2[2:, : W - 3]
        if np.abs(ps - want).max() > tolp:
            viol.append((f"{ID}|simulate_projection|plane-centre|order={order}", f"moving the plane centre by (+2, -3) px (and rescaling the axis vectors) does not shift the projection by (-2, +3) px: max difference {np.abs(ps - want).max():.3g}"))
        ts_ = np.asarray(sim2.simulate_tilt_series([0.0], (zsize,) + VOL[1:])).astype(np.float64)
        if ts_.shape != (1, H, W) or np.abs(ts_[0] - ref2).max() > tolp:
            viol.append((f"{ID}|simulate_tilt_series|zero-tilt-not-the-z-projection|order={order}", f"the 0-degree image of a tilt series differs from the z-projection by {np.abs(ts_[0] - ref2).max() if ts_.shape == (1, H, W) else ts_.shape}"))
    return {"nontrivial": True, "outcome": f"projection|{'viol' if viol else 'ok'}", "viol": viol}
