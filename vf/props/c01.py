"""C01 -- alignment moves each molecule onto the true particle pose.

E1 with constructed ground truth: the tomogram is an analytic particle evaluated at
R*^-1 (x - p*/scale), so it contains a copy of the template at pose (p*, R*) with no
interpolation on the planted side.  For every searched rotation q and every
perturbation m (in the input molecule's own frame, |m_i| <= max_shifts) the input
molecule is R = R* q^-1, p = p* - R m scale; after alignment every one of them must
sit at (p*, R*), and the shift / rotation features must describe the same move.
"""
from __future__ import annotations

import numpy as np

from vf import data

ID = "C01"
LEVEL = "exploration"
DESIGN_REF = "DESIGN.md section 3, C01"
RULE = (
    "full product true orientation x searched rotation set x scale x interpolation order x model x box for the single loader, loader kinds crossed with orientation x rotation set x scale (order 3, ZNCC and PCC, one box); "
    "each case aligns one molecule per (perturbation m, searched rotation q) pair - all of them aimed at the same planted "
    "particle; non-trivial molecules = m != 0 and q != identity (the class where frame mistakes show); distinct = distinct case tuples"
)
ASSUMPTIONS = [
    "planted particle: asymmetric sum of Gaussians (radius ~4.5 px) in a 30^3 tomogram; boxes 16^3 (thorough: 15^3 and (14,16,18))",
    "perturbations from a 6-element (thorough 64-element) lattice with |m_i| <= 3 px and max_shifts = 3.5 px; searched sets of 3 and 9 rotations",
    "accuracy demanded: 0.25 px per axis for ZNCC/NCC, 0.5 px for PCC, 1e-3 rad for the orientation (the statement's 'sub-pixel')",
    "template-free alignment is only defined up to a common frame: the oracle there is mutual consistency of the outputs (0.5 px)",
    "loader kinds added during the seeding waves: grouped alignment with per-group templates / template lists (a different particle per group), template-free alignment with a rotation search (single and grouped), multi-template and template-free grouped kinds",
]

M_QUICK = [(0, 0, 0), (2, 0, 0), (0, -2.5, 0), (0, 0, 3), (2, -3, 1), (-1.5, 2, -2)]
MAX_PX = 3.5
QSETS = {
    "z30": ((0, 0), (0, 0), (30, 30)),
    "zx20": ((20, 20), (0, 0), (20, 20)),
    "obj3": "obj3",
}
RSTAR = {"I": "cube0", "z90": "cube5", "gen0": "gen0", "gen1": "gen1", "gen3": "gen3", "cube14": "cube14", "cube20": "cube20"}
KINDS = ["single", "batch", "group", "multi", "stack", "notemplate", "group-multi", "group-notemplate", "group-mapping", "group-multi-mapping", "notemplate-rot", "group-notemplate-rot"]
TOMO = (30, 30, 30)
DECOY = [(1.0, (0.0, 0.0, 0.0), 1.6), (0.7, (2.0, 2.0, 0.0), 1.2)]
DECOY3 = DECOY + [(0.6, (-1.5, 0.5, 2.0), 1.1)]  # without any symmetry: the particle of the second group in the per-group-template kinds


def _qset_arg(name):
    if name == "obj3":
        from scipy.spatial.transform import Rotation

        return Rotation.from_rotvec([[0.0, 0.0, 0.0], [0.0, 0.5, 0.0], [-0.35, 0.0, 0.35]])
    return QSETS[name]


def _rstars(tier):
    return ["I", "z90", "gen0"] if tier == "quick" else list(RSTAR)


def _boxes(tier):
    return [(16, 16, 16)] if tier == "quick" else [(16, 16, 16), (15, 15, 15), (14, 16, 18)]


def AXES(tier):
    return {"Rstar": _rstars(tier), "qset": list(QSETS), "scale": [1.0, 0.32, 2.5], "order": [1, 3],
            "model": ["ZNCC", "NCC", "PCC"], "kind": KINDS, "box": _boxes(tier),
            "perturbations": len(M_QUICK) if tier == "quick" else 64}


def cases(tier, seed):
    out = []
    for box in _boxes(tier):
        for rs in _rstars(tier):
            for qs in QSETS:
                for scale in (1.0, 0.32, 2.5):
                    for order in (1, 3):
                        for model in ("ZNCC", "NCC", "PCC"):
                            for kind in KINDS:
                                if tier == "quick":
                                    # quick: every axis value is visited, loader kinds other than 'single' on a reduced sub-product
                                    if kind != "single" and not (order == 3 and model == "ZNCC" and qs == "z30"):
                                        continue
                                    if qs == "zx20" and not (model == "ZNCC" and order == 3):
                                        continue
                                if tier == "thorough" and kind != "single" and not (order == 3 and model in ("ZNCC", "PCC") and tuple(box) == (16, 16, 16)):
                                    # thorough: the full product for the single-tomogram loader; the other six loader kinds share its
                                    # per-molecule code and are crossed with every orientation, rotation set and scale on one box
                                    continue
                                if kind in ("notemplate", "group-notemplate", "notemplate-rot", "group-notemplate-rot") and qs != "z30":
                                    continue
                                if kind == "group-multi-mapping" and model != "ZNCC":
                                    # two asymmetric particles that share their main blob compete here; at the corner of the range
                                    # (truncated particle) phase correlation prefers the wrong one - how well a model tells
                                    # templates apart is not this property's business (C06 plants well-separated candidates)
                                    continue
                                out.append({"box": list(box), "Rstar": rs, "qset": qs, "scale": scale, "order": order,
                                            "model": model, "kind": kind, "tier": tier})
    return out


def _ms(tier):
    if tier == "quick":
        return [np.array(m, dtype=np.float64) for m in M_QUICK]
    v = (-3.0, 0.0, 1.5, 3.0)
    return [np.array((a, b, c)) for a in v for b in v for c in v]


def _cls(name):
    from acryo import alignment as al

    return {"ZNCC": al.ZNCCAlignment, "NCC": al.NCCAlignment, "PCC": al.PCCAlignment}[name]


def _tomogram(pstar_px, Rstar, blobs=None):
    g = np.stack(np.meshgrid(*[np.arange(n, dtype=np.float64) for n in TOMO], indexing="ij"), -1)
    x = (g - pstar_px) @ Rstar  # row-vector form of R*^-1 (x - p*)
    return data.particle(x, blobs).astype(np.float32)


def run_case(case):
    import dask
    from scipy.spatial.transform import Rotation

    import polars as pl

    from acryo import BatchLoader, Molecules, SubtomogramLoader
    from acryo._rotation import normalize_rotations

    dask.config.set(scheduler="synchronous")
    box = tuple(case["box"])
    scale, order, mname, kind = case["scale"], case["order"], case["model"], case["kind"]
    Rstar = data.rot_matrix(RSTAR[case["Rstar"]])
    template = data.particle_box(box)  # particle centred in the box
    notemplate = kind in ("notemplate", "group-notemplate")
    # template-free alignment WITH a rotation search (keyword arguments forwarded to the model): most molecules sit on the
    # particle, a few are off by one of the searched rotations - the average is sharp and the search must bring them back
    nt_rot = kind in ("notemplate-rot", "group-notemplate-rot")
    quats = np.asarray(normalize_rotations(_qset_arg(case["qset"])), dtype=np.float64)
    if notemplate:
        quats = np.array([[0.0, 0.0, 0.0, 1.0]])
    ms = _ms(case["tier"])
    if kind != "single" and case["tier"] == "thorough":
        ms = ms[::5]
    if notemplate:
        # one pass of template-free alignment uses the average of the *misaligned* sub-volumes as its reference: how sharp that
        # reference is depends on how the inputs are spread. The statement presupposes a template; for this loader kind the
        # alphabet is the small perturbation set in both tiers (13 copies on a +-3 px lattice smear the reference over 6 px and
        # a single pass then leaves 1.2 px between the outputs - a limit of the method, not a pose-bookkeeping error)
        ms = [np.array(m, dtype=np.float64) for m in M_QUICK]

    if nt_rot:
        ms = [np.zeros(3)] * 10

    def build(pstar_px, uid0):
        pos, rots, meta = [], [], []
        for qi, qq in enumerate(quats):
            q = Rotation.from_quat(qq).as_matrix()
            R = Rstar @ q.T
            isI = bool(np.allclose(q, np.eye(3)))
            for mi, m in enumerate(ms if not nt_rot or isI else ms[:2]):
                p_px = pstar_px - R @ m
                pos.append(p_px * scale)
                rots.append(R)
                meta.append((qi, mi))
        n = len(pos)
        mole = Molecules(np.array(pos), Rotation.from_matrix(np.array(rots)),
                         features={"uid": np.arange(uid0, uid0 + n), "g": (np.arange(n) % 2)})
        return mole, meta

    p1 = np.array([14.3, 15.1, 13.8])
    tomo1 = _tomogram(p1, Rstar)
    mole1, meta1 = build(p1, 0)
    truth = {int(u): (p1, mt) for u, mt in zip(mole1.features["uid"], meta1)}
    inputs = {int(u): (mole1.pos[i], mole1.rotator[i].as_matrix()) for i, u in enumerate(mole1.features["uid"])}
    kw = {}
    if not notemplate:
        kw["rotations"] = _qset_arg(case["qset"])
    cls = _cls(mname)
    ms_nm = MAX_PX * scale

    mapping = kind in ("group-mapping", "group-multi-mapping")
    if kind == "batch" or mapping:
        p2 = np.array([15.6, 13.2, 15.9])
        # per-group templates: the second tomogram holds a different particle, and the groups are the tomograms
        tomo2 = _tomogram(p2, Rstar, blobs=DECOY3 if mapping else None)
        mole2, meta2 = build(p2, 1000)
        if mapping:
            mole1 = mole1.with_features(pl.lit(0).alias("g"))
            mole2 = mole2.with_features(pl.lit(1).alias("g"))
        truth.update({int(u): (p2, mt) for u, mt in zip(mole2.features["uid"], meta2)})
        inputs.update({int(u): (mole2.pos[i], mole2.rotator[i].as_matrix()) for i, u in enumerate(mole2.features["uid"])})
        loader = BatchLoader(order=order, scale=scale, output_shape=box)
        loader.add_tomogram(tomo1, mole1, image_id=0)
        loader.add_tomogram(tomo2, mole2, image_id=1)
    else:
        loader = SubtomogramLoader(tomo1, mole1, order=order, scale=scale, output_shape=box)

    if kind in ("single", "batch"):
        outs = [loader.align(template, max_shifts=ms_nm, alignment_model=cls, **kw).molecules]
    elif kind == "group":
        outs = [l.molecules for _, l in loader.groupby("g").align(template, max_shifts=ms_nm, alignment_model=cls, **kw)]
    elif kind == "multi":
        decoy = data.particle_box(box, blobs=DECOY)
        outs = [loader.align_multi_templates([template, decoy], max_shifts=ms_nm, alignment_model=cls, **kw).molecules]
    elif kind == "group-multi":
        decoy = data.particle_box(box, blobs=DECOY)
        outs = [l.molecules for _, l in loader.groupby("g").align_multi_templates([template, decoy], max_shifts=ms_nm, alignment_model=cls, **kw)]
    elif kind == "stack":
        decoy = data.particle_box(box, blobs=DECOY)
        outs = [loader.align(np.stack([decoy, template]), max_shifts=ms_nm, alignment_model=cls, **kw).molecules]
    elif kind == "group-mapping":
        decoy = data.particle_box(box, blobs=DECOY3)
        outs = [l.molecules for _, l in loader.groupby("g").align({0: template, 1: decoy}, max_shifts=ms_nm, alignment_model=cls, **kw)]
    elif kind == "group-multi-mapping":
        decoy = data.particle_box(box, blobs=DECOY3)
        outs = [l.molecules for _, l in loader.groupby("g").align_multi_templates({0: [template, decoy], 1: [decoy, template]}, max_shifts=ms_nm, alignment_model=cls, **kw)]
    elif kind == "notemplate-rot":
        outs = [loader.align_no_template(max_shifts=ms_nm, alignment_model=cls, **kw).molecules]
    elif kind == "group-notemplate-rot":
        outs = [l.molecules for _, l in loader.groupby("g").align_no_template(max_shifts=ms_nm, alignment_model=cls, **kw)]
    elif kind == "group-notemplate":
        outs = [l.molecules for _, l in loader.groupby("g").align_no_template(max_shifts=ms_nm, alignment_model=cls)]
    else:
        outs = [loader.align_no_template(max_shifts=ms_nm, alignment_model=cls).molecules]

    tol_px = 0.5 if mname == "PCC" else 0.25
    viol = []
    sig = lambda what, cl: f"{ID}|{kind}|{mname}|{what}|{cl}"  # noqa
    seen = 0
    worst_pos = 0.0
    worst_ang = 0.0
    finals = []
    for out in outs:
        f = out.features
        Rout = out.rotator.as_matrix()
        for r in range(len(out)):
            u = int(f["uid"][r])
            pstar, (qi, mi) = truth[u]
            p_in, R_in = inputs[u]
            seen += 1
            m = ms[mi]
            qI = bool(np.allclose(Rotation.from_quat(quats[qi]).as_matrix(), np.eye(3)))
            cl = ("m=0" if not np.any(m) else "m!=0") + "," + ("q=I" if qI else "q!=I")
            if notemplate:
                finals.append((out.pos[r] / scale, u))
            elif nt_rot:
                finals.append((out.pos[r] / scale, u))
                dR = Rout[r].T @ Rstar
                ang = float(np.arccos(np.clip((np.trace(dR) - 1) / 2, -1, 1)))
                worst_ang = max(worst_ang, ang)
                if ang > 1e-3:
                    viol.append((sig("orientation", cl), f"molecule uid {u} (searched rotation {qi} of {case['qset']} away from the particle): output orientation {ang:.4f} rad from the planted orientation after template-free alignment with a rotation search"))
            else:
                epos = np.abs(out.pos[r] / scale - pstar)
                worst_pos = max(worst_pos, float(epos.max()))
                if epos.max() > tol_px:
                    viol.append((sig("position", cl), f"molecule uid {u} (m={m.tolist()}, rotation {qi} of {case['qset']}, R*={case['Rstar']}, scale {scale}): output is {np.round(epos, 3).tolist()} px from the planted position (tolerance {tol_px})"))
                dR = Rout[r].T @ Rstar
                ang = float(np.arccos(np.clip((np.trace(dR) - 1) / 2, -1, 1)))
                worst_ang = max(worst_ang, ang)
                if ang > 1e-3:
                    viol.append((sig("orientation", cl), f"molecule uid {u} (m={m.tolist()}, rotation {qi}): output orientation {ang:.4f} rad from the planted orientation"))
            # features describe the same pose change
            moved = R_in.T @ (out.pos[r] - p_in)
            feat_shift = np.array([f["align-dz"][r], f["align-dy"][r], f["align-dx"][r]], dtype=np.float64)
            if np.abs(moved - feat_shift).max() > 0.006 + 1e-4 * scale + 2e-3 * scale:
                viol.append((sig("shift-feature", cl), f"molecule uid {u}: moved by {np.round(moved, 3).tolist()} nm in its own frame but features say {feat_shift.tolist()} (scale {scale})"))
            rv_move = Rotation.from_matrix(R_in.T @ Rout[r]).as_rotvec()
            rv_feat = np.array([f["align-dzrot"][r], f["align-dyrot"][r], f["align-dxrot"][r]], dtype=np.float64)
            if np.abs(rv_move - rv_feat).max() > 2e-4:
                viol.append((sig("rotation-feature", cl), f"molecule uid {u}: rotated by {np.round(rv_move, 4).tolist()} in its own frame but features say {rv_feat.tolist()}"))
            sc = float(f["score"][r])
            if not np.isfinite(sc) or (mname == "ZNCC" and not notemplate and not nt_rot and kind != "stack" and sc < 0.8):
                viol.append((sig("score", cl), f"molecule uid {u}: score {sc}"))
            if kind in ("multi", "stack", "group-multi", "group-multi-mapping"):
                lab = int(f["labels"][r])
                want = 1 if kind == "stack" else 0
                if lab != want:
                    viol.append((sig("label", cl), f"molecule uid {u}: label {lab}, the particle is template {want}"))
    if (notemplate or nt_rot) and finals:
        if kind in ("group-notemplate", "group-notemplate-rot"):
            # every group is aligned to its own average: consistency within each group
            spread = 0.0
            for gv in (0, 1):
                Pg = np.array([p for p, u_ in finals if u_ % 2 == gv])
                if len(Pg):
                    spread = max(spread, float(np.abs(Pg - np.median(Pg, axis=0)).max()))
        else:
            P = np.array([p for p, _ in finals])
            spread = float(np.abs(P - np.median(P, axis=0)).max())
        worst_pos = spread
        if spread > 0.5:
            viol.append((sig("mutual-consistency", "m!=0,q=I"), f"template-free alignment leaves the molecules {spread:.3f} px apart (same particle)"))
    if seen != len(truth):
        viol.append((sig("molecule-count", "-"), f"{seen} output rows for {len(truth)} molecules"))
    by = {}
    for s, msg in viol:
        by.setdefault(s, msg)
    return {"nontrivial": True, "outcome": f"{kind}|{mname}|{'viol' if viol else 'ok'}", "viol": list(by.items()),
            "metrics": {f"worst_pos_px_{mname}": worst_pos, "worst_angle_rad": worst_ang}}
