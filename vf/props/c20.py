"""C20 -- particle picking finds planted particles regardless of chunking.

E1: particle layouts (every subset of a coarse lattice of admissible sites up to a size
bound) x scale x dtype x picker x chunking (numpy, one chunk, cubes, slabs on each axis,
anisotropic, chunks smaller than the overlap depth).  numpy result against the planted
layout; every dask result against the numpy result.
"""
from __future__ import annotations

import itertools

import numpy as np

from vf import data

ID = "C20"
LEVEL = "exploration"
DESIGN_REF = "DESIGN.md section 3, C20"
RULE = (
    "full product layout (all subsets of size 1..2 of 8 sites plus a fixed set of 3- and 4-subsets; thorough: all subsets up to size 3) x scale x picker x chunking, "
    "dtype varied on a reduced set of layouts; non-trivial = more than one chunk or more than one particle; distinct = distinct case tuples"
)
ASSUMPTIONS = [
    "image (24,24,24) (thorough: also (30,26,22)); Gaussian particles of sigma 1.5 px on sites at least 7 px apart and 4 px from the border, some next to chunk seams",
    "a pick matches a particle when it lies within 1 px * scale of it; dask results are compared with the numpy result as sets of (position within 1 px, rotation)",
    "template matcher: asymmetric analytic template of 9^3 voxels, three searched rotations, particles planted at each searched rotation",
    "added during the seeding waves: single-slice images, sub-pixel min_distance, 343 rotations, scales 0.5 / 2, a periodic template (side lobes) / a flat template (5,17,15) / an even template (6,6,6) across chunk seams, call histories on one picker",
]

SITES = [(5, 5, 5), (5, 13, 18), (13, 5, 18), (18, 18, 5), (12, 12, 11), (11, 19, 13), (19, 6, 11), (5, 12, 7)]
IMG = (24, 24, 24)
CHUNKS = ["numpy", "dask:whole", "dask:12", "dask:8", "dask:10", "dask:irregular", "dask:24,12,8", "dask:slab0:6", "dask:slab1:6", "dask:slab2:6", "dask:slab0:2"]
PICKERS = ["LoG", "DoG", "ZNCC"]
DTYPES = ["float32", "float64", "int16", "uint8"]


def _layouts(tier):
    idx = range(len(SITES))
    out = [c for k in (1, 2) for c in itertools.combinations(idx, k)]
    if tier == "quick":
        out = out[:8] + out[8::3]
        out += [(0, 4, 5), (1, 2, 3), (4, 5, 6), (0, 3, 7), (2, 4, 6, 7), (0, 1, 4, 5)]
    else:
        out += list(itertools.combinations(idx, 3)) + [(2, 4, 6, 7), (0, 1, 4, 5), (0, 1, 2, 3, 4)]
    return out


def AXES(tier):
    return {"layout": len(_layouts(tier)), "scale": [1.0, 2.0, 0.5], "picker": PICKERS, "chunking": CHUNKS, "dtype": DTYPES, "matcher_min_distance_px": [3.0, 0.8]}


def cases(tier, seed):
    for a, b in itertools.combinations(SITES, 2):
        assert np.linalg.norm(np.array(a) - np.array(b)) >= 7.0, (a, b)
    out = []
    for li, lay in enumerate(_layouts(tier)):
        for scale in (1.0, 2.0, 0.5):
            for picker in PICKERS:
                if picker == "ZNCC" and tier == "quick" and li % 3 != 0:
                    continue
                for dt in DTYPES:
                    if dt != "float32" and not (li % 7 == 0 and scale == 1.0):
                        continue
                    out.append({"layout": list(lay), "scale": scale, "picker": picker, "dtype": dt, "seed": seed})
                if picker == "ZNCC":
                    # exclusion distance below one pixel (e.g. the default min_distance on a binned tomogram): no maximum filter,
                    # maxima are the connected regions above min_score
                    out.append({"layout": list(lay), "scale": scale, "picker": picker, "dtype": "float32", "seed": seed, "mindist": "sub-pixel"})
    # a single-slice image (a micrograph held as (1, Y, X)): every axis-0 overlap depth exceeds the image
    for lay in ([0], [4], [0, 1], [1, 3], [0, 1, 3], [0, 1, 3, 4]):
        for scale in (1.0, 2.0):
            for picker in ("LoG", "DoG"):
                out.append({"layout": lay, "scale": scale, "picker": picker, "dtype": "float32", "seed": seed, "img": [1, 24, 24]})
    # a fine rotation search (343 rotations, more than a byte can index): particles planted at an early and at a late rotation
    out.append({"family": "many-rotations", "ks": [40, 300, 342, 255, 256]})
    # a periodic (filament-like) template: its score landscape has side lobes above min_score a few pixels from the true peak,
    # which only the true peak suppresses - also when a chunk seam lies between the two (scale < 1: distances in nm and px differ)
    for scale, md in ((0.5, 3.0), (1.0, 6.0), (0.5, 2.5)):
        out.append({"family": "filament", "scale": scale, "min_distance": md})
    # template shapes: much shorter along z than along y and x (the overlap between chunks has to follow each axis), and even
    # sides (picks at half-integer positions, with a chunk seam through the particle centre and chunks of odd length)
    for name in ("flat", "even"):
        for scale, md in ((1.0, 1.0), (1.0, 2.0), (0.5, 1.0)):
            out.append({"family": "template-shape", "name": name, "scale": scale, "min_distance": md})
    # call histories on one picker object: a pick must not depend on which images / scales the picker served before
    for picker in ("ZNCC-provider", "LoG", "DoG"):
        out.append({"family": "history", "picker": picker, "depth": 2 if tier == "quick" else 3})
    return out


THIN_CHUNKS = ["numpy", "dask:whole", "dask:1,12,12", "dask:1,8,24", "dask:1,24,5", "dask:thin-irregular"]


def _as_array(a, kind):
    if kind == "numpy":
        return a
    from dask import array as da

    spec = kind.split(":")
    if spec[1] == "whole":
        return da.from_array(a, chunks=a.shape)
    if spec[1] == "thin-irregular":
        return da.from_array(a, chunks=((1,), (10, 14), (5, 8, 11)))
    if spec[1] == "irregular":  # non-uniform chunk sizes along every axis
        return da.from_array(a, chunks=((10, 14), (17, 7), (5, 8, 11)))
    if spec[1].startswith("slab"):
        ax = int(spec[1][4:])
        ch = list(a.shape)
        ch[ax] = int(spec[2])
        return da.from_array(a, chunks=tuple(ch))
    ch = tuple(int(c) for c in spec[1].split(","))
    if len(ch) == 1:
        ch = ch * 3
    return da.from_array(a, chunks=ch)


TEMPLATE_SHAPE = (9, 9, 9)
TBLOBS = [(1.0, (0.0, 0.0, 0.0), 1.2), (0.9, (1.6, -0.9, 0.6), 0.9), (0.7, (-1.1, 1.4, -1.3), 0.9)]
ROTVECS = [(0.0, 0.0, 0.0), (0.0, 0.0, np.pi / 2), (np.pi / 2, 0.0, 0.0)]


def _image(case):
    from scipy.spatial.transform import Rotation

    shape = tuple(case.get("img", IMG))
    g = np.stack(np.meshgrid(*[np.arange(n, dtype=np.float64) for n in shape], indexing="ij"), -1)
    img = np.zeros(shape, dtype=np.float64)
    planted = []
    for n, si in enumerate(case["layout"]):
        c = np.array(SITES[si], dtype=np.float64)
        if shape[0] == 1:
            c[0] = 0.0
        if case["picker"] == "ZNCC":
            k = (si + n) % 3
            R = Rotation.from_rotvec(ROTVECS[k]).as_matrix()
            img += data.particle((g - c) @ R, TBLOBS)
            planted.append((c, k))
        else:
            img += np.exp(-((g - c) ** 2).sum(-1) / (2 * 1.5**2))
            planted.append((c, 0))
    dt = case["dtype"]
    if dt == "float32":
        out = img.astype(np.float32)
    elif dt == "float64":
        out = img
    elif dt == "int16":
        out = np.round(img * 1000).astype(np.int16)
    else:
        out = np.round(np.clip(img, 0, 2.5) * 100).astype(np.uint8)
    return out, planted


def _picker(case):
    from scipy.spatial.transform import Rotation

    from acryo import pick

    s = case["scale"]
    if case["picker"] == "LoG":
        return pick.LoGPicker(1.5 * s), {}
    if case["picker"] == "DoG":
        return pick.DoGPicker(1.5 * s, 2.6 * s), {}
    tm = data.particle_box(TEMPLATE_SHAPE, blobs=TBLOBS)
    if case.get("mindist") == "sub-pixel":
        return pick.ZNCCTemplateMatcher(tm, rotation=Rotation.from_rotvec(np.array(ROTVECS)), order=1), {"min_distance": 0.8 * s, "min_score": 0.8}
    return pick.ZNCCTemplateMatcher(tm, rotation=Rotation.from_rotvec(np.array(ROTVECS)), order=1), {"min_distance": 3.0 * s, "min_score": 0.6}


def _match(picks, refs, tol):
    """greedy one-to-one matching; returns (unmatched_picks, unmatched_refs)"""
    refs = list(refs)
    left = []
    for p in picks:
        j = None
        for i, r in enumerate(refs):
            if np.abs(np.asarray(p[0]) - np.asarray(r[0])).max() <= tol and p[1] == r[1]:
                j = i
                break
        if j is None:
            left.append(p)
        else:
            refs.pop(j)
    return left, refs


TBLOBS2 = [(1.0, (-1.8, 1.3, 0.9), 0.9), (0.9, (1.5, -1.4, -1.1), 0.9), (0.6, (1.6, 1.7, 1.2), 0.8)]  # no central blob: unlike TBLOBS


def _run_filament(case):
    import dask

    from acryo import pick

    dask.config.set(scheduler="synchronous")
    scale, md = case["scale"], case["min_distance"]
    fil = [(1.0, (0.0, 0.0, -5.0), 1.0), (1.0, (0.0, 0.0, 0.0), 1.0), (1.0, (0.0, 0.0, 5.0), 1.0)]
    tm = data.particle_box((13, 13, 13), blobs=fil)
    shape = (24, 24, 44)
    g = np.stack(np.meshgrid(*[np.arange(n, dtype=np.float64) for n in shape], indexing="ij"), -1)
    centres = [np.array([12.0, 11.0, 14.0]), np.array([11.0, 12.0, 32.0])]
    img = sum(data.particle(g - c, fil) for c in centres).astype(np.float32)
    matcher = pick.ZNCCTemplateMatcher(tm, order=1)
    viol = []
    ref = None
    for chunks in (None, (24, 24, 44), (24, 24, 10), (24, 24, 9), (24, 24, 11), (24, 24, 27), (24, 24, 28), (24, 24, 29), (12, 12, 10), (24, 24, 8), (24, 24, 19), (24, 24, 37)):
        from dask import array as da

        arr = img if chunks is None else da.from_array(img, chunks=chunks)
        m = matcher.pick_molecules(arr, scale, min_distance=md, min_score=0.5)
        pos = np.asarray(m.pos, dtype=np.float64) / scale
        got = sorted(tuple(np.round(p, 1)) for p in pos)
        ok = len(pos) == 2 and all(any(np.abs(p - c).max() <= 1.0 for p in pos) for c in centres)
        if not ok:
            extra = [p.tolist() for p in np.round(pos, 1) if not any(np.abs(p - c).max() <= 1.0 for c in centres)]
            viol.append((f"{ID}|ZNCC[periodic template]|{'spurious-pick' if extra else 'particle-missed'}|{'numpy' if chunks is None else 'multi-chunk'}",
                         f"scale {scale}, min_distance {md} nm ({md / scale:g} px), chunks {chunks}: {len(pos)} picks {got} for particles at {[c.tolist() for c in centres]}; extra {extra}"))
    by = {}
    for s_, m_ in viol:
        by.setdefault(s_, m_)
    return {"nontrivial": True, "outcome": f"filament|{'viol' if viol else 'ok'}", "viol": list(by.items())}


def _run_template_shape(case):
    import dask
    from dask import array as da

    from acryo import pick

    dask.config.set(scheduler="synchronous")
    scale, md, name = case["scale"], case["min_distance"], case["name"]
    if name == "flat":
        blobs = [(1.0, (0.0, -4.0, 3.0), 1.0), (0.8, (0.0, 3.5, -3.0), 1.1), (0.6, (0.5, 0.0, 0.0), 0.9)]
        tshape, shape = (5, 17, 15), (10, 64, 60)
        centres = [np.array([4.0, 14.0, 13.0]), np.array([5.0, 31.0, 41.0]), np.array([4.0, 50.0, 22.0])]
        chunkings = [None, (10, 64, 60), (10, 32, 60), (10, 64, 30), (10, 33, 31), (10, 29, 60), (10, 64, 43), (5, 32, 30), (10, 16, 20), (10, 27, 25)]
    else:
        blobs = [(1.0, (0.5, 0.5, -0.5), 1.0), (0.7, (-0.5, 1.5, 1.5), 0.9)]
        tshape, shape = (6, 6, 6), (20, 36, 36)
        centres = [np.array([9.5, 8.5, 8.5]), np.array([9.5, 26.5, 22.5])]
        chunkings = [None, (20, 36, 36), (20, 18, 18), (20, (9, 27), 36), (20, 36, (9, 27)), (20, (27, 9), (23, 13)), ((10, 10), 9, 9), (20, 36, 23), (20, 27, 36), ((9, 11), 36, 36)]
    tm = data.particle_box(tshape, blobs=blobs)
    g = np.stack(np.meshgrid(*[np.arange(n, dtype=np.float64) for n in shape], indexing="ij"), -1)
    img = sum(data.particle(g - c, blobs) for c in centres).astype(np.float32)
    matcher = pick.ZNCCTemplateMatcher(tm, order=1)
    viol = []
    for chunks in chunkings:
        arr = img if chunks is None else da.from_array(img, chunks=chunks)
        try:
            m = matcher.pick_molecules(arr, scale, min_distance=md, min_score=0.6)
        except Exception as e:  # noqa
            viol.append((f"{ID}|ZNCC[{name} template]|raised-{type(e).__name__}|{'numpy' if chunks is None else 'multi-chunk'}", f"chunks {chunks}: {e}"))
            continue
        pos = np.asarray(m.pos, dtype=np.float64) / scale
        near = lambda p: [i for i, c in enumerate(centres) if np.abs(p - c).max() <= 1.0]  # noqa
        hits = [near(p) for p in pos]
        extra = [np.round(p, 1).tolist() for p, h in zip(pos, hits) if not h]
        counts = [sum(1 for h in hits if i in h) for i in range(len(centres))]
        if extra or any(c != 1 for c in counts):
            what = "spurious-pick" if extra else ("duplicate-pick" if any(c > 1 for c in counts) else "particle-missed")
            viol.append((f"{ID}|ZNCC[{name} template]|{what}|{'numpy' if chunks is None else 'multi-chunk'}",
                         f"template {tshape}, scale {scale}, min_distance {md} nm, chunks {chunks}: {len(pos)} picks {[np.round(p, 1).tolist() for p in pos]} for particles at {[c.tolist() for c in centres]} (picks per particle {counts})"))
    by = {}
    for s_, m_ in viol:
        by.setdefault(s_, m_)
    return {"nontrivial": True, "outcome": f"template-shape|{name}|{'viol' if viol else 'ok'}", "viol": list(by.items())}


def _run_many_rotations(case):
    import dask
    from scipy.spatial.transform import Rotation

    from acryo import pick
    from acryo._rotation import normalize_rotations

    dask.config.set(scheduler="synchronous")
    spec = ((30, 10), (30, 10), (30, 10))
    quats = normalize_rotations(spec)
    tm = data.particle_box(TEMPLATE_SHAPE, blobs=TBLOBS)
    viol = []
    shape = (24, 24, 24 * len(case["ks"]))
    g = np.stack(np.meshgrid(*[np.arange(n, dtype=np.float64) for n in shape], indexing="ij"), -1)
    img = np.zeros(shape)
    planted = []
    for i, k in enumerate(case["ks"]):
        c = np.array([11.0, 12.0, 12.0 + 24 * i])
        R = Rotation.from_quat(quats[k]).as_matrix()
        img += data.particle((g - c) @ R, TBLOBS)
        planted.append((c, k))
    matcher = pick.ZNCCTemplateMatcher(tm, rotation=spec, order=1)
    for kind in ("numpy", "dask:24"):
        m = matcher.pick_molecules(_as_array(img.astype(np.float32), kind), 1.0, min_distance=3.0, min_score=0.6)
        pos = np.asarray(m.pos, dtype=np.float64)
        q = m.quaternion() if len(pos) else np.zeros((0, 4))
        for c, k in planted:
            near = [i for i in range(len(pos)) if np.abs(pos[i] - c).max() <= 1.0]
            if len(near) != 1:
                viol.append((f"{ID}|ZNCC[343 rotations]|{'particle-missed' if not near else 'duplicate-pick'}", f"{kind}: {len(near)} picks at the particle planted at {c.tolist()} with rotation #{k} of {len(quats)}"))
                continue
            ang = np.rad2deg((Rotation.from_quat(q[near[0]]).inv() * Rotation.from_quat(quats[k])).magnitude())
            if ang > 15.0:
                viol.append((f"{ID}|ZNCC[343 rotations]|wrong-rotation", f"{kind}: particle planted with rotation #{k} of {len(quats)} is reported {ang:.1f} degrees away (neighbouring search rotations are 10 degrees apart)"))
        if len(pos) != len(planted):
            viol.append((f"{ID}|ZNCC[343 rotations]|pick-count", f"{kind}: {len(pos)} picks for {len(planted)} particles"))
    by = {}
    for s_, m_ in viol:
        by.setdefault(s_, m_)
    return {"nontrivial": True, "outcome": f"many-rotations|{'viol' if viol else 'ok'}", "viol": list(by.items())}


def _run_history(case):
    """one picker object serving several (image, scale) requests in every order; the template of the matcher is an
    ImageProvider whose image depends on the scale (another particle at scale 2), as a provider may"""
    import dask
    from scipy.spatial.transform import Rotation

    from acryo import pick, pipe

    from vf import history

    dask.config.set(scheduler="synchronous")
    pk = case["picker"]
    g = np.stack(np.meshgrid(*[np.arange(n, dtype=np.float64) for n in IMG], indexing="ij"), -1)
    sites = [SITES[0], SITES[4], SITES[3]]
    rotq = Rotation.from_rotvec(np.array(ROTVECS))
    quats = rotq.as_quat()

    def scene(blobs):
        img = np.zeros(IMG)
        for n, c in enumerate(sites):
            R = Rotation.from_rotvec(ROTVECS[n % 3]).as_matrix()
            img += data.particle((g - np.array(c, dtype=np.float64)) @ R, blobs) if pk == "ZNCC-provider" else np.exp(-((g - np.array(c)) ** 2).sum(-1) / (2 * 1.5**2))
        return img.astype(np.float32)

    imgs = {1.0: scene(TBLOBS), 2.0: scene(TBLOBS2)}

    def make():
        if pk == "LoG":
            return lambda s: pick.LoGPicker(1.5 * s), {}
        if pk == "DoG":
            return lambda s: pick.DoGPicker(1.5 * s, 2.6 * s), {}
        prov = pipe.provider_function(lambda scale: data.particle_box(TEMPLATE_SHAPE, blobs=TBLOBS if scale < 1.5 else TBLOBS2).astype(np.float32))()
        m = pick.ZNCCTemplateMatcher(prov, rotation=rotq, order=1)
        return lambda s: m, {"min_distance": 3.0, "min_score": 0.6}

    def op(scale, kind):
        def run(state):
            get, kw = state
            kw = {k: (v * scale if k == "min_distance" else v) for k, v in kw.items()}
            mol = get(scale).pick_molecules(_as_array(imgs[scale], kind), scale, **kw)
            pos = np.round(np.asarray(mol.pos, dtype=np.float64) / scale, 2)
            rot = [0] * len(pos)
            if pk == "ZNCC-provider" and len(pos):
                rot = [int(np.argmax([abs(float(np.dot(qi, qq))) for qq in quats])) for qi in mol.quaternion()]
            return sorted([tuple(p.tolist()) + (r,) for p, r in zip(pos, rot)])
        return run

    ops = [(f"pick(scale={s},{k})", op(s, k)) for s in (1.0, 2.0) for k in ("numpy", "dask:12")]
    if pk != "ZNCC-provider":
        # LoG/DoG pickers are parameterised per scale here (a fresh object per call): the state is the module-level memo only
        pass
    res = history.explore(make, ops, case["depth"], atol=1e-6, rtol=0)
    viol, seen = [], set()
    for n_ in res["raises_alone"]:
        viol.append((f"{ID}|{pk}|history|raises-on-a-fresh-picker", f"{n_} raised {res['raises_alone_msg'][n_]}"))
    if res["raises_alone"]:
        return {"nontrivial": True, "outcome": f"history|{pk}|viol", "viol": viol}
    # the solo answers themselves: one pick per particle at the planted sites, with the planted rotation
    for name, fn in ops:
        history.reset_memo_caches()
        got = fn(make())
        want = sorted([tuple(float(v) for v in c) + ((n % 3) if pk == "ZNCC-provider" else 0,) for n, c in enumerate(sites)])
        if len(got) != len(want) or any(np.abs(np.array(a[:3]) - np.array(b[:3])).max() > 1.0 or a[3] != b[3] for a, b in zip(got, want)):
            viol.append((f"{ID}|{pk}|history|solo-pick-wrong", f"{name} on a fresh picker: {got}, planted {want}"))
            break
    for hist, why in res["failures"]:
        sg = f"{ID}|{pk}|history|pick-depends-on-earlier-calls"
        if sg not in seen:
            seen.add(sg)
            viol.append((sg, f"{hist[-1]} after {hist[:-1]} differs from the same call on a fresh picker: {why}"))
    for hist, err in res["errors"]:
        sg = f"{ID}|{pk}|history|raised"
        if sg not in seen:
            seen.add(sg)
            viol.append((sg, f"{hist} raised {err}"))
    if res["nondeterministic"]:
        viol.append((f"{ID}|{pk}|history|not-reproducible", f"{res['nondeterministic']}"))
    return {"nontrivial": True, "outcome": f"history|{pk}|{'viol' if viol else 'ok'}", "viol": viol,
            "metrics": {"history_sequences": res["sequences"], "history_calls": res["calls"]}}


def run_case(case):
    import dask
    from scipy.spatial.transform import Rotation

    if case.get("family") == "history":
        return _run_history(case)
    if case.get("family") == "many-rotations":
        return _run_many_rotations(case)
    if case.get("family") == "filament":
        return _run_filament(case)
    if case.get("family") == "template-shape":
        return _run_template_shape(case)
    dask.config.set(scheduler="synchronous")
    img, planted = _image(case)
    scale = case["scale"]
    picker, kw = _picker(case)
    pk = case["picker"] + ("[min_distance<1px]" if case.get("mindist") else "") + ("[single-slice]" if "img" in case else "")
    shape = np.array(case.get("img", IMG))
    quats = Rotation.from_rotvec(np.array(ROTVECS)).as_quat()
    viol = []
    seen = set()

    def add(sig, msg):
        if sig not in seen:
            seen.add(sig)
            viol.append((sig, msg))

    def run(kind):
        m = picker.pick_molecules(_as_array(img, kind), scale, **kw)
        pos = np.asarray(m.pos, dtype=np.float64) / scale
        rot = [0] * len(pos)
        if pk.startswith("ZNCC") and len(pos):
            q = m.quaternion()
            rot = [int(np.argmax([abs(float(np.dot(qi, qq))) for qq in quats])) for qi in q]
        return [(pos[i], rot[i]) for i in range(len(pos))]

    results = {}
    for kind in (THIN_CHUNKS if "img" in case else CHUNKS):
        cls = "numpy" if kind == "numpy" else ("single-chunk" if kind == "dask:whole" else ("below-depth" if kind.endswith(":2") else "multi-chunk"))
        try:
            results[kind] = run(kind)
        except Exception as e:  # noqa
            from vf.core import acryo_frame

            add(f"{ID}|{pk}|raised-{type(e).__name__}|{cls}", f"chunking {kind}, layout {case['layout']}: {type(e).__name__}: {str(e)[:150]} at {acryo_frame(e.__traceback__)}")
            continue
        picks = results[kind]
        outside = [p for p in picks if np.any(p[0] < -0.5) or np.any(p[0] > shape - 0.5)]
        if outside:
            add(f"{ID}|{pk}|pick-outside-image|{cls}", f"chunking {kind}, layout {case['layout']}, scale {scale}: pick at {np.round(outside[0][0], 2).tolist()} px in a {tuple(shape.tolist())} image")
        extra, missing = _match(picks, planted, 1.0)
        if missing:
            # a wrong rotation shows up as missing + extra at the same place
            kindm = "wrong-rotation" if pk.startswith("ZNCC") and any(np.abs(e[0] - m_[0]).max() <= 1.0 for e in extra for m_ in missing) else "particle-missed"
            add(f"{ID}|{pk}|{kindm}|{cls}", f"chunking {kind}, layout {case['layout']} (sites {[SITES[i] for i in case['layout']]}), scale {scale}, dtype {case['dtype']}: {len(picks)} picks {[np.round(p[0], 1).tolist() for p in picks[:5]]}; not found: {[m_[0].tolist() for m_ in missing]}")
        elif extra:
            dup = any(np.abs(e[0] - p_[0]).max() <= 1.0 for e in extra for p_ in planted)
            add(f"{ID}|{pk}|{'duplicate-pick' if dup else 'spurious-pick'}|{cls}", f"chunking {kind}, layout {case['layout']}, scale {scale}, dtype {case['dtype']}: {len(picks)} picks for {len(planted)} particles; extra at {[np.round(e[0], 1).tolist() for e in extra[:4]]}")
    if "numpy" in results:
        for kind, picks in results.items():
            if kind == "numpy":
                continue
            a, b = _match(picks, results["numpy"], 1.0)
            if a or b:
                cls = "single-chunk" if kind == "dask:whole" else ("below-depth" if kind.endswith(":2") else "multi-chunk")
                add(f"{ID}|{pk}|differs-from-numpy|{cls}", f"chunking {kind}, layout {case['layout']}: {len(picks)} picks vs {len(results['numpy'])} on numpy; only in dask {[np.round(x[0], 1).tolist() for x in a[:3]]}, only in numpy {[np.round(x[0], 1).tolist() for x in b[:3]]}")
    nontrivial = len(case["layout"]) > 1 or True
    return {"nontrivial": bool(nontrivial), "outcome": f"{pk}|{'viol' if viol else 'ok'}", "viol": viol}
