"""C06 -- rotation/template search returns the best candidate, correctly labelled.

E1: for every template count T, rotation set (given as ranges or Rotation objects,
identity not first), every planted (template j, searched rotation k) pair and
displacement, through every entry point: the reported rotation must be exactly q_k,
the label must decode to j, the shift must be d.  Sub-volumes are analytic particles
evaluated at rotated/displaced coordinates (no interpolation on the planted side).
Brute force: the multi-candidate result is compared with T*K single-candidate models.
"""
from __future__ import annotations

import numpy as np

from vf import data

ID = "C06"
LEVEL = "exploration"
DESIGN_REF = "DESIGN.md section 3, C06"
RULE = (
    "full product T x rotation set x (j,k) x displacement x model at the model level, plus loader-level cases in which one loader "
    "holds one molecule per (j,k) pair, for align(4-D stack) / align_multi_templates / LoaderGroup.align_multi_templates (list and mapping); "
    "non-trivial = T*K > 1 with (j,k) != (0,0); distinct = distinct case tuples"
)
ASSUMPTIONS = [
    "T <= 3 templates, rotation sets of K in {1,2,3,5,9} elements, box 12^3; particles are asymmetric sums of Gaussians (no symmetry-related candidates)",
    "searched rotations differ by >= 20 degrees so that candidates are separated by more than the interpolation error of the rotated templates",
    "brute-force comparison uses rotated templates built with scipy (order 3) outside the library; ties within 0.02 score are don't-care",
    "models ZNCC, PCC (thorough: NCC); FSC is not enumerated here: its unweighted mean over shells is dominated by shells that hold only interpolation noise of the rotated smooth templates (see C04 for the FSC data class)",
    "added during the seeding waves: 125 / 375 candidates, Rotation objects, a tight bar mask for every rotation set, background offset, with_params entries, per-key template lists in a different order",
]

SHAPE = (12, 12, 12)
ROTSETS = {
    "K1": None,
    # a single searched rotation that is not the identity (a fixed re-orientation)
    "K1-obj": [("rotvec", (0.0, 0.0, 0.5))],
    "K2-obj": [("rotvec", (0.0, 0.0, 0.5)), ("rotvec", (0.0, 0.0, 0.0))],
    # the identity is the first element, not the middle one
    "K3-obj-id-first": [("rotvec", (0.0, 0.0, 0.0)), ("rotvec", (0.0, 0.4, 0.0)), ("rotvec", (0.0, 0.8, 0.0))],
    "K3-obj": [("rotvec", (0.45, 0.0, 0.0)), ("rotvec", (0.0, 0.0, 0.0)), ("rotvec", (0.0, -0.5, 0.3))],
    "K3-range": ((0, 0), (0, 0), (25, 25)),
    "K5-range": ((0, 0), (40, 20), (0, 0)),
    "K9-range": ((25, 25), (0, 0), (25, 25)),
    # 125 rotations: with 3 templates the candidate index k*T+j passes 255 (a narrow integer label would wrap)
    "K125-range": ((10, 5), (10, 5), (10, 5)),
}
BIG_PAIRS = [[1, 40], [0, 85], [1, 85], [2, 124]]
BLOBSETS = [
    data._BLOBS,
    [(1.0, (0.0, 0.0, 0.0), 1.2), (0.9, (-1.8, 0.7, 1.2), 1.0), (0.7, (1.0, -1.9, -0.8), 1.0), (0.5, (0.3, 1.4, -2.0), 0.9)],
    [(1.0, (0.5, 0.5, -0.5), 1.1), (0.8, (-1.2, -1.6, 0.9), 1.0), (0.8, (1.7, 0.2, 1.5), 0.95), (0.6, (-0.4, 2.0, -1.3), 0.9)],
]
DISP = [(0.0, 0.0, 0.0), (1.0, -1.0, 0.5)]
MAXSHIFT = (2.0, 2.0, 2.0)


def _rotations_arg(name):
    from scipy.spatial.transform import Rotation

    spec = ROTSETS[name]
    if spec is None:
        return None
    if isinstance(spec, list):
        return Rotation.from_rotvec(np.array([rv for _, rv in spec]))
    return spec


def _K(name):
    return {"K1": 1, "K1-obj": 1, "K3-obj-id-first": 3, "K2-obj": 2, "K3-obj": 3, "K3-range": 3, "K5-range": 5, "K9-range": 9, "K125-range": 125}[name]


def _rotsets(tier):
    return ["K1", "K1-obj", "K2-obj", "K3-obj", "K3-obj-id-first", "K3-range", "K5-range"] + (["K9-range"] if tier == "thorough" else [])


def AXES(tier):
    return {"T": [1, 2, 3], "rotation_set": _rotsets(tier), "model": ["ZNCC", "PCC"] + (["NCC"] if tier == "thorough" else []),
            "displacement": DISP, "entry": ["Model.align", "Model.fit", "loader.align(stack)", "loader.align_multi_templates",
                                            "group.align_multi_templates(list)", "group.align_multi_templates(mapping)", "group.align_multi_templates(mapping with a different template order per key)", "brute-force"]}


def cases(tier, seed):
    out = []
    models = ["ZNCC", "PCC"] + (["NCC"] if tier == "thorough" else [])
    for T in (1, 2, 3):
        for rs in _rotsets(tier):
            K = _K(rs)
            for model in models:
                if model == "FSC" and T * K > 6:
                    continue
                for j in range(T):
                    for k in range(K):
                        for d in DISP:
                            out.append({"kind": "model", "T": T, "rs": rs, "model": model, "j": j, "k": k, "d": list(d)})
                out.append({"kind": "brute", "T": T, "rs": rs, "model": model, "seed": seed})
                if model == "ZNCC" and K > 1:
                    # (ZNCC only: the un-normalised PCC scores of differently masked candidates are not comparable)
                    # a mask that is not rotation-invariant: every candidate needs the mask turned by its own rotation
                    for j in range(T):
                        for k in range(K):
                            out.append({"kind": "model", "T": T, "rs": rs, "model": model, "j": j, "k": k, "d": list(DISP[1]), "mask": "bar"})
                if model == "ZNCC" and K > 1:
                    # density maps on a constant background (not zero-mean): what is swept into the corners of a rotated
                    # candidate template must be background, not zero
                    for j in range(T):
                        for k in range(K):
                            out.append({"kind": "model", "T": T, "rs": rs, "model": model, "j": j, "k": k, "d": list(DISP[1]), "toffset": 3.0})
            for entry in ("align(stack)", "align_multi_templates", "group(list)", "group(mapping)", "group(mapping-permuted)", "align_multi_templates[with_params]", "align(stack)[with_params]"):
                if T == 1 and entry.startswith("group(mapping"):
                    continue
                for model in ("ZNCC", "PCC"):
                    out.append({"kind": "loader", "T": T, "rs": rs, "model": model, "entry": entry})
    # many candidates (T*K = 375): selected (j, k) pairs around candidate index 256 and at the end; neighbouring rotations are
    # only 5 degrees apart, so the label and the shift are checked exactly and the rotation up to its nearest neighbours
    for entry in ("align_multi_templates", "group(list)") if tier == "thorough" else ("align_multi_templates",):
        out.append({"kind": "loader", "T": 3, "rs": "K125-range", "model": "ZNCC", "entry": entry, "pairs": BIG_PAIRS})
    return out


def _cls(name):
    from acryo import alignment as al

    return {"ZNCC": al.ZNCCAlignment, "NCC": al.NCCAlignment, "PCC": al.PCCAlignment, "FSC": al.FSCAlignment}[name]


def _templates(T, offset=0.0):
    """zero-mean, unit-norm templates: with equal norms the un-normalised scores (PCC) of
    different templates are comparable, so 'made from template j' implies 'template j scores best'"""
    out = []
    for j in range(T):
        t = data.particle_box(SHAPE, blobs=BLOBSETS[j]).astype(np.float64)
        t = t - t.mean()
        out.append((10.0 * t / np.sqrt((t * t).sum()) + offset).astype(np.float32))
    return out


_CACHE = {}


def _bar_mask():
    """soft mask that is not invariant under any searched rotation (different half-widths on the three axes)"""
    c = data.box_coords(SHAPE)
    w = np.array([5.0, 3.6, 2.6])  # tight on two axes: a mask turned by the wrong rotation cuts into the particle
    r = np.max(np.abs(c) / w, axis=-1)
    return (1.0 / (1.0 + np.exp((r - 1.0) * 6.0))).astype(np.float32)


def _model(T, rs, model, offset=0.0, mask=None):
    key = (T, rs, model, offset, mask)
    if key not in _CACHE:
        if len(_CACHE) > 3:
            _CACHE.clear()
        tm = _templates(T, offset)
        kw = {}
        if ROTSETS[rs] is not None:
            kw["rotations"] = _rotations_arg(rs)
        if mask == "bar":
            kw["mask"] = _bar_mask()
        _CACHE[key] = _cls(model)(tm if T > 1 else tm[0], **kw)
    return _CACHE[key]


def _quat_equal(q, qk):
    q = np.asarray(q, dtype=np.float64)
    qk = np.asarray(qk, dtype=np.float64)
    return abs(abs(float(np.dot(q, qk)) / (np.linalg.norm(q) * np.linalg.norm(qk))) - 1.0) < 1e-6


def _which_rotation(q, quats):
    for i, qk in enumerate(quats):
        if _quat_equal(q, qk):
            return i
    return None


def _planted(j, Rk, d, gain=2.0, offset=0.3):
    return (gain * data.particle_box(SHAPE, shift=d, rot=Rk, blobs=BLOBSETS[j]) + offset).astype(np.float32)


def run_case(case):
    if case["kind"] == "loader":
        return _run_loader(case)
    if case["kind"] == "brute":
        return _run_brute(case)
    from scipy.spatial.transform import Rotation

    T, rs, mname, j, k = case["T"], case["rs"], case["model"], case["j"], case["k"]
    d = np.asarray(case["d"], dtype=np.float64)
    model = _model(T, rs, mname, case.get("toffset", 0.0), case.get("mask"))
    K = _K(rs)
    quats = np.asarray(model.quaternions)
    assert quats.shape[0] == K, (quats.shape, K)
    Rk = Rotation.from_quat(quats[k]).as_matrix()
    # the uncentred NCC score is not offset-invariant (C07): no background for that model
    img = _planted(j, Rk, d, offset=0.0 if mname == "NCC" else 0.3)
    kind = f"T{'>1' if T > 1 else '=1'},K{'>1' if K > 1 else '=1'}"
    viol = []
    sig = lambda entry, what: f"{ID}|{entry}[{mname}]|{what}|{kind}"  # noqa
    res = model.align(img, MAXSHIFT)
    kk = _which_rotation(res.quat, quats)
    if kk != k:
        viol.append((sig("Model.align", "rotation"), f"planted (template {j}, rotation {k}) of T={T}, K={K} ({rs}); reported rotation index {kk} quat {np.round(res.quat, 4).tolist()} label {res.label}"))
    # documented order: rotation-major, template-minor
    lab = int(res.label)
    jj = lab % T if K > 1 else lab
    if jj != j or lab >= T * K or (K > 1 and lab // T != k):
        viol.append((sig("Model.align", "label"), f"planted (template {j}, rotation {k}) of T={T}, K={K}; label {lab} decodes to template {lab % T}, rotation {lab // T}"))
    shift_tol = 0.5 if (mname == "FSC" or case.get("mask")) else 0.15  # a soft mask may truncate the displaced density (as in C04)
    if np.abs(np.asarray(res.shift) - d).max() > shift_tol:
        viol.append((sig("Model.align", "shift"), f"planted d={d.tolist()}, reported {np.round(res.shift, 3).tolist()} (j={j}, k={k}, T={T}, K={K})"))
    if T == 1 or mname != "FSC":
        fitted, r2 = model.fit(img, MAXSHIFT)
        kk2 = _which_rotation(r2.quat, quats)
        if kk2 != k:
            viol.append((sig("Model.fit", "rotation"), f"planted (template {j}, rotation {k}) of T={T}, K={K}; fit reported rotation index {kk2}"))
        if T > 1 and int(r2.label) % T != j:
            viol.append((sig("Model.fit", "label"), f"planted (template {j}, rotation {k}) of T={T}, K={K}; fit reported label {int(r2.label)}"))
        if np.abs(np.asarray(r2.shift) - d).max() > shift_tol:
            viol.append((sig("Model.fit", "shift"), f"planted d={d.tolist()}, fit reported {np.round(r2.shift, 3).tolist()}"))
        # the fitted image must be superimposed on the template
        t = (model.template if T == 1 else model.template[j]).astype(np.float64)
        a = fitted - fitted.mean()
        b = t - t.mean()
        cc = float((a * b).sum() / np.sqrt((a * a).sum() * (b * b).sum()))
        if cc < 0.9:
            viol.append((sig("Model.fit", "transformed-image"), f"corr(fitted image, template) = {cc:.3f} for planted rotation {k}, d={d.tolist()}"))
    return {"nontrivial": bool(T * K > 1 and (j, k) != (0, 0)), "outcome": f"{kind}|{'viol' if viol else 'ok'}", "viol": viol}


def _rotated_template(t, R, cval):
    """template rotated by R about the box centre, cubic spline (independent of the library's pipeline)"""
    from scipy import ndimage as ndi

    c = (np.asarray(t.shape) - 1) / 2
    Rinv = R.T
    offset = c - Rinv @ c
    return ndi.affine_transform(t, Rinv, offset=offset, order=3, mode="constant", cval=cval)


def _run_brute(case):
    from scipy.spatial.transform import Rotation

    T, rs, mname = case["T"], case["rs"], case["model"]
    model = _model(T, rs, mname)
    K = _K(rs)
    quats = np.asarray(model.quaternions)
    tm = _templates(T)
    kind = f"T{'>1' if T > 1 else '=1'},K{'>1' if K > 1 else '=1'}"
    viol = []
    rng = np.random.default_rng(case["seed"] + 17)
    # inputs without a planted truth: an in-between rotation of a blend, and noise + weak particle
    Rmid = Rotation.from_rotvec([0.12, -0.2, 0.22]).as_matrix()
    imgs = [
        (0.6 * data.particle_box(SHAPE, rot=Rmid, blobs=BLOBSETS[0]) + 0.4 * data.particle_box(SHAPE, rot=Rmid, blobs=BLOBSETS[(T - 1)])).astype(np.float32),
        (data.particle_box(SHAPE, shift=(0.5, 0.5, -1), blobs=BLOBSETS[T - 1]) + 0.15 * rng.standard_normal(SHAPE)).astype(np.float32),
    ]
    cval = float(np.percentile(np.stack(tm), 1))
    cls = _cls(mname)
    singles = {}
    for j in range(T):
        for k in range(K):
            Rk = Rotation.from_quat(quats[k]).as_matrix()
            tt = tm[j] if np.allclose(Rk, np.eye(3)) else _rotated_template(tm[j], Rk, cval).astype(np.float32)  # (a single non-identity rotation is a rotation too)
            singles[(j, k)] = cls(tt)
    for ii, img in enumerate(imgs):
        res = model.align(img, MAXSHIFT)
        scores = {jk: float(m.align(img, MAXSHIFT).score) for jk, m in singles.items()}
        best = max(scores.values())
        lab = int(res.label)
        jk = (lab % T, lab // T) if K > 1 else (lab, 0)
        norm = 1.0 if mname != "PCC" else max(abs(best), 1e-12)
        if jk not in scores:
            viol.append((f"{ID}|brute-force[{mname}]|label-out-of-range|{kind}", f"label {lab} for T={T}, K={K}"))
            continue
        if (best - scores[jk]) / norm > 0.02:
            viol.append((f"{ID}|brute-force[{mname}]|not-the-best-candidate|{kind}", f"input {ii}: reported candidate {jk} scores {scores[jk]:.4f} alone, best single candidate {max(scores, key=scores.get)} scores {best:.4f}"))
        if abs(float(res.score) - scores[jk]) / norm > 0.02:
            viol.append((f"{ID}|brute-force[{mname}]|score-mismatch|{kind}", f"input {ii}: reported score {float(res.score):.4f}, candidate {jk} alone scores {scores[jk]:.4f}"))
        kk = _which_rotation(res.quat, quats)
        if kk != jk[1]:
            viol.append((f"{ID}|brute-force[{mname}]|rotation-label-disagree|{kind}", f"input {ii}: label {lab} -> rotation {jk[1]}, but reported quat is rotation {kk}"))
    return {"nontrivial": bool(T * K > 1), "outcome": f"brute|{kind}|{'viol' if viol else 'ok'}", "viol": viol}


def _run_loader(case):
    import dask
    from scipy.spatial.transform import Rotation

    from acryo import Molecules, SubtomogramLoader

    dask.config.set(scheduler="synchronous")
    T, rs, mname, entry = case["T"], case["rs"], case["model"], case["entry"]
    K = _K(rs)
    probe = _model(T, rs, mname)
    quats = np.asarray(probe.quaternions)
    tm = _templates(T)
    n = SHAPE[0]
    pairs = [(j, k) for k in range(K) for j in range(T)]
    # interleave so that neither j nor k is monotone in the molecule index
    pairs = pairs[::2] + pairs[1::2]
    coarse_rot = "pairs" in case
    if coarse_rot:
        pairs = [tuple(p) for p in case["pairs"]]
    N = len(pairs)
    tomo = np.zeros((n, n, n * N), dtype=np.float32) + 0.3
    pos = []
    dtrue = []
    for i, (j, k) in enumerate(pairs):
        d = np.array(DISP[i % 2])
        Rk = Rotation.from_quat(quats[k]).as_matrix()
        tomo[:, :, n * i : n * (i + 1)] = _planted(j, Rk, d)
        pos.append([(n - 1) / 2, (n - 1) / 2, (n - 1) / 2 + n * i])
        dtrue.append(d)
    scale = 0.5
    mole = Molecules(np.array(pos) * scale, features={"uid": np.arange(N), "g": np.arange(N) % 2})
    loader = SubtomogramLoader(tomo, mole, order=1, scale=scale, output_shape=SHAPE)
    kw = {}
    if ROTSETS[rs] is not None:
        kw["rotations"] = _rotations_arg(rs)
    cls = _cls(mname)
    ms = tuple(m * scale for m in MAXSHIFT)
    kind = f"T{'>1' if T > 1 else '=1'},K{'>1' if K > 1 else '=1'}"
    viol = []
    sig = lambda what: f"{ID}|loader.{entry}|{what}|{kind}"  # noqa
    if entry.endswith("[with_params]"):
        # the model class with its parameters bound in advance (Model.with_params(...)) instead of keyword arguments
        bound = cls.with_params(**kw)
        if entry.startswith("align(stack)"):
            outs = [loader.align(np.stack(tm) if T > 1 else tm[0], max_shifts=ms, alignment_model=bound).molecules]
        else:
            outs = [loader.align_multi_templates(tm, max_shifts=ms, alignment_model=bound).molecules]
    elif entry == "align(stack)":
        outs = [loader.align(np.stack(tm) if T > 1 else tm[0], max_shifts=ms, alignment_model=cls, **kw).molecules]
    elif entry == "align_multi_templates":
        outs = [loader.align_multi_templates(tm, max_shifts=ms, alignment_model=cls, **kw).molecules]
    elif entry == "group(list)":
        outs = [l.molecules for _, l in loader.groupby("g").align_multi_templates(tm, max_shifts=ms, alignment_model=cls, **kw)]
    elif entry == "group(mapping-permuted)":
        # every key has its own template list: key 1 gets the list reversed, so its labels count from the other end
        grp = loader.groupby("g")
        mapping = {key: (tm if key == 0 else tm[::-1]) for key in grp.keys}
        outs = [l.molecules for _, l in grp.align_multi_templates(mapping, max_shifts=ms, alignment_model=cls, **kw)]
    else:
        grp = loader.groupby("g")
        mapping = {key: tm for key in grp.keys}
        outs = [l.molecules for _, l in grp.align_multi_templates(mapping, max_shifts=ms, alignment_model=cls, **kw)]
    seen = 0
    for out in outs:
        f = out.features
        for r in range(len(out)):
            i = int(f["uid"][r])
            j, k = pairs[i]
            seen += 1
            if T > 1 or not entry.startswith("align(stack)"):
                lab = int(f["labels"][r])
                jwant = T - 1 - j if (entry == "group(mapping-permuted)" and int(f["g"][r]) == 1) else j
                if lab != jwant:
                    viol.append((sig("label"), f"molecule {i} planted (template {j}, rotation {k}) of T={T}, K={K}: labels={lab}" + (f" (position {jwant} in the list of its group)" if jwant != j else "")))
            q_out = out.quaternion()[r]
            kk = _which_rotation(q_out, quats)  # input orientation is the identity
            rv = np.array([f["align-dzrot"][r], f["align-dyrot"][r], f["align-dxrot"][r]])
            rv_true = Rotation.from_quat(quats[k]).as_rotvec()
            if coarse_rot:
                ang = (Rotation.from_quat(q_out).inv() * Rotation.from_quat(quats[k])).magnitude()
                if ang > np.deg2rad(5.0 * np.sqrt(3) + 0.1):
                    viol.append((sig("rotation"), f"molecule {i} planted (template {j}, rotation {k}) of T={T}, K={K}: output orientation is {np.rad2deg(ang):.1f} deg away"))
            elif kk != k and not np.allclose(Rotation.from_quat(q_out).as_matrix(), Rotation.from_quat(quats[k]).as_matrix(), atol=1e-5):
                viol.append((sig("rotation"), f"molecule {i} planted (template {j}, rotation {k}) of T={T}, K={K}: output orientation is searched rotation {kk}"))
            elif np.abs(rv - rv_true).max() > 2e-4:
                viol.append((sig("rotation-feature"), f"molecule {i}: rotation features {rv.tolist()} but applied rotation vector {np.round(rv_true, 5).tolist()}"))
            sh = np.array([f["align-dz"][r], f["align-dy"][r], f["align-dx"][r]]) / scale
            if np.abs(sh - dtrue[i]).max() > 0.17:
                viol.append((sig("shift"), f"molecule {i}: planted d={dtrue[i].tolist()} px, features give {sh.tolist()} px"))
    if seen != N:
        viol.append((sig("molecule-count"), f"{seen} rows for {N} molecules"))
    return {"nontrivial": bool(T * K > 1), "outcome": f"loader|{entry}|{kind}|{'viol' if viol else 'ok'}", "viol": viol[:6]}
