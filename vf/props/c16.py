"""C16 -- low-pass filtering is a real, linear, zero-phase Butterworth filter.

E1 x E5: for every (shape, cutoff, order, entry point) of the alphabet the
filter is applied to *every* canonical basis image of that shape; the assembled
operator matrix is compared entry-wise with F^-1 diag(g) F built from the
formula in the statement.  Because the filter is linear (also checked, on
enumerated pairs) this decides the property for every real input of the shape.
"""
from __future__ import annotations

import itertools

import numpy as np

ID = "C16"
LEVEL = "exploration"
DESIGN_REF = "DESIGN.md section 3, C16"
RULE = (
    "full product shape x cutoff x order x entry point; each case feeds every basis "
    "impulse of the shape (operator extraction) plus two linearity pairs; non-trivial = "
    "filter active (0 < cutoff < 0.5*sqrt(3)) and more than one voxel; distinct = distinct case tuples"
)
ASSUMPTIONS = [
    "shapes up to 6 voxels per side (quick: 4); larger shapes are not enumerated",
    "numpy/scipy FFT trusted; float32 arithmetic tolerance 2e-5 absolute on operator entries",
    "Model.pre_transform is exercised through ZNCCAlignment (order fixed at 2 by the library)",
    "added during the seeding waves: input dtypes, call histories over the memoised weights, cutoffs with more than three significant digits, sides with prime factors 13-37 and boxes of 48^3, 49^3, (40,56,48) (four impulses and a noise image instead of the full operator extraction)",
]

ENTRIES = [
    "utils.lowpass_filter",
    "utils.lowpass_filter_ft",
    "backend.lowpass_filter",
    "backend.lowpass_filter_ft",
    "pipe.lowpass_filter",
    "model.pre_transform",
]
CUTOFFS = [0.2, 0.5, 0.05, 0.86, 0.87, 0.0, -1.0, 2.0, 0.21875, 0.12345678]  # the last two: derived values (scale / resolution) with more than three significant digits
ORDERS = [2, 1, 3]


def _shapes(tier):
    if tier == "quick":
        base = list(itertools.product(range(1, 5), repeat=3))
        extra = [(5, 5, 5), (6, 6, 6), (5, 4, 6), (4, 6, 5), (6, 5, 3), (1, 1, 5), (2, 6, 5)]
    else:
        base = list(itertools.product(range(1, 7), repeat=3))
        extra = [(8, 8, 8), (7, 7, 7), (9, 8, 7), (8, 7, 9)]
    base.sort(key=lambda s: (s[0] * s[1] * s[2], s))
    return base + extra


def AXES(tier):
    return {"shape": _shapes(tier), "cutoff": CUTOFFS, "order": ORDERS, "entry": ENTRIES}


def cases(tier, seed):
    out = []
    for shape in _shapes(tier):
        for cutoff in CUTOFFS:
            for order in ORDERS:
                for entry in ENTRIES:
                    if entry == "model.pre_transform" and order != 2:
                        continue
                    out.append({"shape": list(shape), "cutoff": cutoff, "order": order, "entry": entry})
    # input dtypes other than float32 (integer density maps, boolean masks to be softened): the filter acts on the values
    for dt in ("float64", "int16", "uint8", "int8", "bool"):
        for entry in ENTRIES:
            if entry == "model.pre_transform":
                continue
            for cutoff in (0.2, 0.5):
                out.append({"family": "dtype", "dtype": dt, "entry": entry, "cutoff": cutoff, "shape": [5, 6, 4]})
    # sizes beyond the operator-extraction alphabet: sides with large prime factors (13, 17, 19, 23, 31, 37: where an FFT
    # would be padded to a fast length), and boxes of realistic size.  Probed with four impulses and a noise image.
    for shape in ((13, 13, 13), (10, 17, 12), (26, 8, 9), (31, 6, 5), (4, 4, 37), (23, 19, 11), (48, 48, 48), (49, 49, 49), (40, 56, 48)):
        for cutoff in (0.2, 0.5):
            for order in (2, 1):
                for entry in ENTRIES:
                    if entry == "model.pre_transform" and order != 2:
                        continue
                    out.append({"family": "large", "shape": list(shape), "cutoff": cutoff, "order": order, "entry": entry})
    # call histories: the filter weights are memoised per (shape, cutoff, order); a low-pass must not depend on which
    # filters (low- or high-pass, other cutoffs, other shapes, numpy- or backend-level) were applied before it
    for shape in ((5, 6, 4), (7, 7, 7)) + (((8, 6, 9),) if tier == "thorough" else ()):
        out.append({"family": "history", "shape": list(shape), "depth": 2 if tier == "quick" else 3})
    return out


def ref_gain(shape, cutoff, order):
    """1/(1+(|f|/cutoff)^(2*order)) on the fftfreq grid; identity outside (0, 0.5*sqrt(3))."""
    if cutoff <= 0 or cutoff >= 0.5 * np.sqrt(3):
        return np.ones(shape, dtype=np.float64)
    fz, fy, fx = np.meshgrid(*[np.fft.fftfreq(n) for n in shape], indexing="ij")
    r = np.sqrt(fz**2 + fy**2 + fx**2)
    return 1.0 / (1.0 + (r / cutoff) ** (2 * order))


def _apply(entry, img, cutoff, order):
    from acryo import _utils
    from acryo.backend import Backend

    if entry == "utils.lowpass_filter":
        return _utils.lowpass_filter(img, cutoff, order), False
    if entry == "utils.lowpass_filter_ft":
        return _utils.lowpass_filter_ft(img, cutoff, order), True
    if entry == "backend.lowpass_filter":
        return Backend().lowpass_filter(img, cutoff, order), False
    if entry == "backend.lowpass_filter_ft":
        return Backend().lowpass_filter_ft(img, cutoff, order), True
    if entry == "pipe.lowpass_filter":
        from acryo import pipe

        return pipe.lowpass_filter(cutoff=cutoff, order=order)(img, 1.0), False
    raise KeyError(entry)


_MODELS = {}


def _history(case):
    from acryo import _utils, pipe
    from acryo.alignment import ZNCCAlignment
    from acryo.backend import Backend

    from vf import history

    shape = tuple(case["shape"])
    other = tuple(s + 1 for s in shape)
    rng = np.random.default_rng(3)
    img = rng.standard_normal(shape).astype(np.float32)
    img2 = rng.standard_normal(other).astype(np.float32)

    def make():
        return {"img": img.copy(), "img2": img2.copy()}

    ops = []
    for c in (0.3, 0.45):
        ops.append((f"utils.lowpass({c})", lambda st, c=c: np.asarray(_utils.lowpass_filter(st["img"], c, 2))))
        ops.append((f"utils.highpass({c})", lambda st, c=c: np.asarray(_utils.highpass_filter(st["img"], c, 2))))
        ops.append((f"backend.lowpass({c})", lambda st, c=c: np.asarray(Backend().lowpass_filter(st["img"], c, 2))))
    ops.append(("utils.lowpass_ft(0.3)", lambda st: np.asarray(_utils.lowpass_filter_ft(st["img"], 0.3, 2))))
    ops.append(("utils.highpass_ft(0.3)", lambda st: np.asarray(_utils.highpass_filter_ft(st["img"], 0.3, 2))))
    ops.append(("backend.lowpass_ft(0.3)", lambda st: np.asarray(Backend().lowpass_filter_ft(st["img"], 0.3, 2))))
    # (the backend-level high-pass helpers of acryo/backend/_bandpass.py cannot be called at all - they omit an argument of
    # nd_butterworth_weight - and nothing in the library uses them, so they are not part of the alphabet)
    ops.append(("utils.lowpass(0.3,order=3)", lambda st: np.asarray(_utils.lowpass_filter(st["img"], 0.3, 3))))
    ops.append(("utils.lowpass(0.3)[other shape]", lambda st: np.asarray(_utils.lowpass_filter(st["img2"], 0.3, 2))))
    ops.append(("backend.lowpass(0.3)[other shape]", lambda st: np.asarray(Backend().lowpass_filter(st["img2"], 0.3, 2))))
    ops.append(("pipe.lowpass(0.3)", lambda st: np.asarray(pipe.lowpass_filter(cutoff=0.3)(st["img"], 1.0))))
    ops.append(("pipe.highpass(0.3)", lambda st: np.asarray(pipe.highpass_filter(cutoff=0.3)(st["img"], 1.0))))
    ops.append(("model.pre_transform(0.3)", lambda st: np.asarray(ZNCCAlignment(st["img"], cutoff=0.3).pre_transform(st["img"], Backend()))))
    ops.append(("model.pre_transform(0.45)", lambda st: np.asarray(ZNCCAlignment(st["img"], cutoff=0.45).pre_transform(st["img"], Backend()))))
    res = history.explore(make, ops, case["depth"], atol=2e-6, rtol=1e-5)
    viol = []
    seen = set()
    for hist, why in res["failures"]:
        s = f"{ID}|history|{hist[-1].split('(')[0]}|after-{hist[-2].split('(')[0]}"
        if s not in seen:
            seen.add(s)
            viol.append((s, f"shape {shape}: {hist[-1]} after {hist[:-1]} differs from the same call on a fresh process: {why}"))
    for hist, err in res["errors"]:
        s = f"{ID}|history|{hist[-1].split('(')[0]}|raised"
        if s not in seen:
            seen.add(s)
            viol.append((s, f"shape {shape}: {hist} raised {err}"))
    for n_ in res["raises_alone"]:
        viol.append((f"{ID}|history|{n_.split('(')[0]}|raises-in-a-fresh-process", f"shape {shape}: {n_} raised {res['raises_alone_msg'][n_]}"))
    if res["nondeterministic"]:
        viol.append((f"{ID}|history|not-reproducible", f"operations {res['nondeterministic']} differ between two fresh runs"))
    return {"nontrivial": True, "outcome": f"history|{'viol' if viol else 'ok'}", "viol": viol,
            "metrics": {"history_sequences": res["sequences"], "history_calls": res["calls"]}}


def _large(case):
    shape = tuple(case["shape"])
    cutoff, order, entry = case["cutoff"], case["order"], case["entry"]
    g = ref_gain(shape, cutoff, order)
    viol = []
    if entry == "model.pre_transform":
        from acryo.alignment import ZNCCAlignment
        from acryo.backend import Backend

        model = ZNCCAlignment(np.ones(shape, dtype=np.float32), cutoff=cutoff)
        be = Backend()
        fn = lambda im: (model.pre_transform(im, be), True)  # noqa
    else:
        fn = lambda im: _apply(entry, im, cutoff, order)  # noqa
    rng = np.random.default_rng(77)
    probes = []
    for site in ((0, 0, 0), tuple(n - 1 for n in shape), tuple(n // 2 for n in shape), (shape[0] // 3, shape[1] - 2, 1)):
        e = np.zeros(shape, dtype=np.float32)
        e[site] = 1.0
        probes.append((f"impulse at {site}", e))
    probes.append(("noise image with mean 3", (rng.standard_normal(shape) + 3.0).astype(np.float32)))
    for pname, im in probes:
        out, is_ft = fn(im)
        out = np.asarray(out)
        ref_ft = g * np.fft.fftn(im.astype(np.float64))
        ref = ref_ft if is_ft else np.fft.ifftn(ref_ft).real
        scale_ = float(np.abs(ref).max())
        if out.shape != ref.shape or (not is_ft and np.iscomplexobj(out)):
            viol.append((f"{ID}|{entry}|large|shape-or-dtype", f"shape {shape}: result {out.shape} {out.dtype}"))
            break
        err = float(np.abs(out - ref).max())
        if err > 3e-5 * max(1.0, scale_):
            viol.append((f"{ID}|{entry}|large|operator", f"shape {shape}, cutoff {cutoff}, order {order}, {pname}: result differs from F^-1 diag(gain) F by {err:.3g} (values up to {scale_:.3g})" + ("" if is_ft else f"; mean {float(out.mean()):.5g} vs {float(im.mean()):.5g}")))
            break
    return {"nontrivial": True, "outcome": f"large|{'viol' if viol else 'ok'}", "viol": viol}


def _dtype(case):
    dt, entry, cutoff = case["dtype"], case["entry"], case["cutoff"]
    shape = tuple(case["shape"])
    rng = np.random.default_rng(21)
    base = rng.random(shape)
    img = (base > 0.5) if dt == "bool" else (base * {"float64": 1.0, "int16": 4000, "uint8": 250, "int8": 120}[dt]).astype(dt)
    f64 = np.asarray(img, dtype=np.float64)
    g = ref_gain(shape, cutoff, 2)
    want = np.fft.ifftn(np.fft.fftn(f64) * g).real
    out, is_ft = _apply(entry, img, cutoff, 2)
    out = np.asarray(out)
    got = np.fft.ifftn(out).real if is_ft else out.astype(np.float64)
    viol = []
    tol = 5e-6 * max(1.0, np.abs(f64).max())
    if got.shape != want.shape or np.abs(got - want).max() > tol:
        viol.append((f"{ID}|{entry}|dtype|{'integer' if 'int' in dt else dt}-input", f"{dt} image of shape {shape}, cutoff {cutoff}: result (dtype {out.dtype}) differs from the Butterworth filter of the same values by {np.abs(got - want).max():.4g} (values up to {np.abs(f64).max():.4g}); mean {got.mean():.5g} vs {f64.mean():.5g}"))
    return {"nontrivial": True, "outcome": f"dtype|{dt}|{'viol' if viol else 'ok'}", "viol": viol}


def run_case(case):
    if case.get("family") == "history":
        return _history(case)
    if case.get("family") == "dtype":
        return _dtype(case)
    if case.get("family") == "large":
        return _large(case)
    shape = tuple(case["shape"])
    cutoff, order, entry = case["cutoff"], case["order"], case["entry"]
    n = int(np.prod(shape))
    parity = "last-odd" if shape[-1] % 2 else "last-even"
    sig = lambda kind: f"{ID}|{entry}|{kind}|{parity}"  # noqa
    viol = []
    g = ref_gain(shape, cutoff, order)
    active = 0 < cutoff < 0.5 * np.sqrt(3)

    if entry == "model.pre_transform":
        from acryo.alignment import ZNCCAlignment
        from acryo.backend import Backend

        key = (shape, cutoff)
        model = _MODELS.get(key)
        if model is None:
            _MODELS.clear()
            model = _MODELS[key] = ZNCCAlignment(np.ones(shape, dtype=np.float32), cutoff=cutoff)
        if cutoff == 0.0:
            # "cutoff or 1.0": zero means no filtering, as documented -> identity either way
            pass
        be = Backend()
        fn = lambda im: (model.pre_transform(im, be), True)  # noqa
    else:
        fn = lambda im: _apply(entry, im, cutoff, order)  # noqa

    worst = 0.0
    rng = np.random.default_rng(12345)
    # operator extraction: every canonical basis image
    for j in range(n):
        e = np.zeros(n, dtype=np.float32)
        e[j] = 1.0
        e = e.reshape(shape)
        out, is_ft = fn(e)
        out = np.asarray(out)
        if out.shape != shape:
            viol.append((sig("shape"), f"input shape {shape} -> output shape {out.shape} (cutoff={cutoff})"))
            break
        ref_ft = g * np.fft.fftn(e.astype(np.float64))
        if is_ft:
            err = float(np.abs(out - ref_ft).max())
            tol = 5e-5
        else:
            if np.iscomplexobj(out):
                viol.append((sig("not-real"), f"real-space entry point returned dtype {out.dtype}"))
                break
            ref = np.fft.ifftn(ref_ft).real
            err = float(np.abs(out - ref).max())
            tol = 2e-5
            if abs(float(out.sum()) - 1.0) > 1e-4:
                viol.append((sig("dc-gain"), f"sum of response to unit impulse = {out.sum():.6f}, expected 1"))
                break
        worst = max(worst, err)
        if err > tol:
            viol.append(
                (
                    sig("operator"),
                    f"shape={shape} cutoff={cutoff} order={order}: response to impulse {j} differs from "
                    f"F^-1 diag(gain) F by {err:.3g}",
                )
            )
            break
    # linearity on enumerated pairs
    if not viol:
        x = rng.standard_normal(shape).astype(np.float32)
        y = rng.standard_normal(shape).astype(np.float32)
        for a, b in ((2.0, -0.5), (1.0, 3.0)):
            fx, _ = fn(x)
            fy, _ = fn(y)
            fxy, _ = fn((a * x + b * y).astype(np.float32))
            err = float(np.abs(np.asarray(fxy) - (a * np.asarray(fx) + b * np.asarray(fy))).max())
            scale = float(np.abs(np.asarray(fxy)).max()) + 1.0
            if err > 1e-4 * scale:
                viol.append((sig("linearity"), f"f({a}x+{b}y) differs from {a}f(x)+{b}f(y) by {err:.3g}"))
                break
    return {
        "nontrivial": bool(active and n > 1),
        "outcome": f"{'active' if active else 'identity'}|{parity}|{'viol' if viol else 'ok'}",
        "viol": viol,
        "metrics": {"worst_operator_error": worst},
    }
